"""C02 - aggregates are values, lists are shared; components addressed exactly."""
from .. import mir, hir
from ..facts import relfile
from ..report import RuleResult
from .c01 import roots
from .c09 import names
from .c16 import base_local

EXPLANATION = (
    "Value semantics and exact addressing for all programs is behaviour of generated code and is not decided. Decided is the agreement "
    "between the independent re-computations of component offsets and the sharing structure of the reference types: L1 every "
    "LayoutBuilder walk is classified from its resolved context (enum variant vs record fields); an enum-variant walk is seeded with "
    "exactly one add(Layout::of::<u8>()) - the tag - before the first field, a record walk is not, every walk adds the fields by a "
    "forward traversal, and ffi::list_get computes the payload offset of its Option result as 1.next_multiple_of(align) (the same "
    "formula); L2 clone direction: the generated clone bodies copy from the parameter into the return slot, and call_clone_of / "
    "call_clone_function pass (to, from) consistently down to memcpy / clone / write; L3 who is shared: ErasedList is exactly "
    "Arc<Mutex<RawList>> with a derived Clone, List<T> is a transparent wrapper whose Clone clones the handle, strings wrap an "
    "immutable Arc<str>, and reading a local variable yields Value::Clone (a copy), never a move of the variable."
)
EXPLANATION += (
    " L2 decides direction by parameter position (roles DEST/SRC propagated from the to/from/val/return_ptr fields of the lir instructions through every helper up to VarKind::Return). L4 aggregate literals copy each component when it is evaluated (no lazily lowered component value is read after a later component ran)."
)
EXPLANATION += (  # round-3 supplement
    ' L5 the host-side mirrors of the built-in enums are exactly #[repr(u8)] (payload placement agrees with the per-variant walks).'
)
EXPLANATION += (
    ' L6 the type a record variable is bound to on meeting a concrete record lists the fields in the concrete order. L7 (= C15.M6) structural equality through list components: the element loop of the list equality lies behind a comparison of both lengths.'
)
ASSUMPTIONS = [
    "LayoutBuilder::add implements C-style layout (decided separately by its own three-line body being unchanged is NOT assumed; only the callers' agreement is decided)",
]

REVERSERS = {"rev", "rposition", "next_back", "sort", "sort_by", "sort_by_key", "reverse", "skip"}


def classify(anc, fnpath):
    descs = []
    for a in anc:
        if "pat" in a and isinstance(a.get("pat"), dict):
            descs.append(hir.pat_desc(a["pat"]))
    ctx = " ".join(descs)
    if "Ty::Enum" in ctx or "VariantField" in ctx or "_enum" in fnpath:
        return "enum"
    if "Ty::Record" in ctx or "_record" in fnpath or fnpath.endswith("::get_field"):
        return "record"
    return "other"


def _agg_of(b, defs, local):
    """Closure aggregates assigned to `local` (def paths)."""
    out = []
    for d in defs.defs.get(local, []):
        if d[2] == "assign" and d[3]["rv"]["k"] == "agg":
            out.append(d[3]["rv"].get("def") or d[3]["rv"].get("kind") or "")
    return out


_CALLERS = {}


def _callers(F, path):
    """(caller function path, ancestors of the call node, caller's own path) for every call of the crate function `path`"""
    if id(F) not in _CALLERS:
        _CALLERS.clear()
        idx = {}
        for cb in F.all_bodies():
            if not cb.hir or "tests" in cb.file:
                continue
            for n, anc in hir.walk_ctx(cb.hir.get("value") or {}):
                d = hir.call_def(n) if n.get("k") in ("call", "mcall") else None
                if d and F.has(d):
                    idx.setdefault(d, []).append((cb.path.split("::{closure")[0], anc, cb.path))
        _CALLERS[id(F)] = idx
    return _CALLERS[id(F)].get(path, [])


def _caller_kinds(F, path, depth=0):
    out = set()
    for fn, anc, _own in _callers(F, path):
        k = classify(anc, fn)
        if k == "other" and depth < 1 and fn != path:
            out |= _caller_kinds(F, fn, depth + 1)
        elif k != "other":
            out.add(k)
    return out


def rule_l1(F):
    r = RuleResult("C02.L1", "layout walks agree: enum-variant walks start with the 1-byte tag, record walks do not; fields are added front to back", floor=10)
    n_enum = n_rec = 0
    closures = [cb for cb in F.all_bodies() if cb.mir and cb.def_kind == "Closure" and any(mir.callee_def(t).endswith("LayoutBuilder::add") for _, t in mir.calls(cb))]
    for b in F.all_bodies():
        if not b.hir or not b.mir or b.file.endswith("runtime/layout.rs") or "tests" in b.file:
            continue
        sites = []
        outer = []
        fnpath = b.path
        if b.def_kind == "Closure":
            # context of the closure inside its parent
            parent = b.path.rsplit("::{closure", 1)[0]
            pb = F.body(parent)
            fnpath = parent
            if pb is not None and pb.hir:
                for n, anc in hir.walk_ctx(pb.hir.get("value") or {}):
                    if n.get("k") == "closure" and n.get("def") == b.path:
                        outer = anc
        for n, anc in hir.walk_ctx(b.hir.get("value") or {}):
            if n.get("k") == "call" and (hir.call_def(n) or "").endswith("LayoutBuilder::new"):
                k_ = classify(outer + anc, fnpath)
                if k_ == "other":
                    # a walk moved into a private helper: what it walks over is told by the place it is called from
                    ks = _caller_kinds(F, fnpath)
                    if len(ks) == 1:
                        k_ = next(iter(ks))
                sites.append((n["line"], k_))
        if not sites:
            continue
        defs = mir.Defs(b)
        dom = mir.dominators(b)
        news = [(bi, t) for bi, t in mir.calls(b) if mir.callee_def(t).endswith("LayoutBuilder::new")]
        adds = [(bi, t) for bi, t in mir.calls(b) if mir.callee_def(t).endswith("LayoutBuilder::add")]
        for (nbi, nt) in news:
            kind = [k for (ln, k) in sites if ln == nt["line"]]
            kind = kind[0] if kind else "other"
            L = nt["dest"][0]
            # the user variable the builder is stored in
            holders = {L}
            for l, ds in defs.defs.items():
                for d in ds:
                    if d[2] == "assign" and d[3]["rv"]["k"] == "use" and mir.is_place_op(d[3]["rv"]["o"]) and d[3]["rv"]["o"][1][0] in holders:
                        holders.add(l)
            mine = [(b, defs, bi, t) for bi, t in adds if mir.is_place_op(t["args"][0]) and base_local(b, defs, t["args"][0][1]) in holders]
            # adds made inside closures of this function on the captured builder (e.g. fields.iter().find_map(|..| layout.add(..)))
            if len(news) == 1 and b.def_kind != "Closure":
                for cb in closures:
                    if cb.path.startswith(b.path + "::{closure"):
                        cdefs = None
                        for cbi, ct in mir.calls(cb):
                            if mir.callee_def(ct).endswith("LayoutBuilder::add") and mir.is_place_op(ct["args"][0]):
                                cdefs = cdefs or mir.Defs(cb)
                                if mir.origin(cb, cdefs, ct["args"][0][1])[0] == "arg1":
                                    mine.append((cb, cdefs, cbi, ct))
            if not mine:
                # a builder that is handed, fresh, to an accumulating closure (`try_fold(LayoutBuilder::new(), |mut b, t| { b.add(..) })`):
                # the closure's adds on its accumulator parameter are this walk - and it has no seed
                for obi, ot in mir.calls(b):
                    if not any(mir.is_place_op(a) and base_local(b, defs, a[1]) in holders for a in ot["args"]):
                        continue
                    for cb in closures:
                        if cb.path.startswith(b.path.split("::{closure")[0] + "::{closure") and any(mir.is_place_op(a) and cb.path in str(_agg_of(b, defs, a[1][0])) for a in ot["args"]):
                            cdefs = mir.Defs(cb)
                            for cbi, ct in mir.calls(cb):
                                if mir.callee_def(ct).endswith("LayoutBuilder::add") and mir.is_place_op(ct["args"][0]) and mir.origin(cb, cdefs, ct["args"][0][1])[0].startswith("arg") \
                                        and mir.origin(cb, cdefs, ct["args"][0][1])[0] != "arg1":
                                    mine.append((cb, cdefs, cbi, ct))
            if not mine:
                continue
            main = [x for x in mine if x[0] is b] or mine
            fdom = dom if main[0][0] is b else mir.dominators(main[0][0])
            first = [x for x in main if x[0] is main[0][0] and all(x[2] in fdom[y[2]] for y in main if y[0] is x[0])]

            def is_tag(x):
                xb, xdefs, _bi, t = x
                a1 = t["args"][1]
                ch = mir.value_chain(xb, xdefs, a1[1][0]) if mir.is_place_op(a1) else []
                for c in ch:
                    t2 = xb.blocks[c[0]]["term"]
                    if c[2].endswith("Layout::of") and (t2["f"].get("gargs") or [None])[0] == "u8":
                        return True
                return False

            seeded = bool(first) and is_tag(first[0])
            tags = sum(1 for x in mine if is_tag(x))
            key = "%s line-free %s #%d" % (b.path, kind, news.index((nbi, nt)))
            r.inst(key, {"fn": b.path, "line": nt["line"], "walk": kind, "add_sites": len(mine), "starts_with_u8_tag": seeded, "tag_adds": tags})
            if kind == "enum":
                n_enum += 1
                if not seeded or tags != 1:
                    r.bad(b.path, "enum walk #%d tag" % news.index((nbi, nt)), relfile(b.file), nt["line"],
                          "a walk over an enum variant's fields must start with exactly one add(Layout::of::<u8>()) for the discriminant (found first=%s, count=%d): every field offset of this walk disagrees with Pool::layout_of" % (seeded, tags))
            elif kind == "record":
                n_rec += 1
                if tags != 0:
                    r.bad(b.path, "record walk #%d tag" % news.index((nbi, nt)), relfile(b.file), nt["line"], "a walk over record fields must not add a tag byte")
            # forward traversal of the fields feeding add
            for (xb, xdefs, bi, t) in mine:
                a1 = t["args"][1]
                if not mir.is_place_op(a1):
                    continue
                ch = mir.value_chain(xb, xdefs, a1[1][0])
                if xb is not b:
                    # the closure is driven by an iterator adaptor of the enclosing function: its receiver chain must not reverse
                    for obi, ot in mir.calls(b):
                        if any(mir.is_place_op(a) and xb.path in str(_agg_of(b, defs, a[1][0])) for a in ot["args"][1:]):
                            ich = mir.value_chain(b, defs, ot["args"][0][1][0]) if mir.is_place_op(ot["args"][0]) else []
                            bad = [hir.last(x[2]) for x in ich if hir.last(x[2]) in REVERSERS] + ([hir.last(mir.callee_def(ot))] if hir.last(mir.callee_def(ot)) in REVERSERS else [])
                            if bad:
                                r.bad(b.path, "walk #%d order" % news.index((nbi, nt)), relfile(b.file), t["line"], "fields are added to the layout through %s: offsets no longer follow declaration order" % bad[0])
                for c in ch:
                    if hir.last(c[2]) == "next":
                        t2 = xb.blocks[c[0]]["term"]
                        ich = mir.value_chain(xb, xdefs, t2["args"][0][1][0]) if mir.is_place_op(t2["args"][0]) else []
                        bad = [hir.last(x[2]) for x in ich if hir.last(x[2]) in REVERSERS]
                        if bad:
                            r.bad(b.path, "walk #%d order" % news.index((nbi, nt)), relfile(b.file), t["line"], "fields are added to the layout through %s: offsets no longer follow declaration order" % bad[0])
        # iterators in the function that reverse/skip field lists (for-loops over `fields`)
    r.note("enum walks: %d, record walks: %d" % (n_enum, n_rec))
    # required walk sites (one per independent re-computation of variant offsets)
    need = {"Pool::layout_of": "mir::ty::Pool::layout_of", "location (VariantField)": "::location", "clone body": "generate_clone_body_enum",
            "drop body": "generate_drop_body_enum", "eq body": "generate_eq_body_enum"}
    have = [k.split(" line-free")[0] for k in r.instances if " line-free enum" in k]
    for h_ in list(have):
        # the function that calls the helper holding the walk has that walk too
        for c1 in _callers(F, h_.split("::{closure")[0]):
            have.append(c1[0])
            for c2 in _callers(F, c1[0]):
                have.append(c2[0])
    for label, suffix in need.items():
        if not any(suffix in h for h in have):
            r.bad("layout walks", "missing enum walk: " + label, "-", 0,
                  "the offsets of enum variant fields in `%s` are no longer computed by a LayoutBuilder walk seeded with the tag byte (add per field, in order): "
                  "agreement with Pool::layout_of and the generated clone/drop/eq bodies cannot be established (e.g. Layout::concat pads the prefix like a finished struct)" % label)
    if n_enum < 5:
        r.missing("5 enum-variant layout walks (found %d)" % n_enum)
    if n_rec < 3:     # vacuity guard only (helpers may merge record walks; the enum walks are required site by site above)
        r.missing("3 record layout walks (found %d)" % n_rec)
    # list_get payload offset
    lg = F.body("value::list::ffi::list_get")
    if lg is None:
        r.missing("value::list::ffi::list_get")
    else:
        ok = False
        # list_get and the private helpers of its module that it calls (the Some case may be written out in a helper)
        for fb in hir.with_callees(F, lg, depth=2, same_file=True):
            if not fb.path.startswith("value::list::ffi::"):
                continue
            ld = hir.LocalDefs(fb.hir)

            def depends_on_align(e, depth=0, ld=ld):
                if depth > 6:
                    return False
                for n in hir.walk(e):
                    if n.get("k") == "mcall" and n["m"] == "align":
                        return True
                    if n.get("k") == "path" and hir.res_local(n) is not None:
                        d = ld.get(hir.res_local(n))
                        if d and d[1] is not None and d[2] == () and depends_on_align(d[1], depth + 1):
                            return True
                return False
            for c in hir.nodes(fb.hir["value"], "mcall"):
                if c["m"] in ("byte_add", "add", "byte_offset") and c["args"]:
                    a0 = hir.strip(c["args"][0])
                    if a0.get("k") == "lit":
                        continue
                    if depends_on_align(c["args"][0]):
                        ok = True
        r.inst("list_get payload offset", {"ok": ok})
        if not ok:
            r.bad(lg.path, "payload offset", relfile(lg.file), lg.line, "list_get must write the element at an offset derived from the element alignment (1.next_multiple_of(align)) - the offset every enum walk computes for the first field after the tag; a constant offset is wrong for most element types")
    return r


def var_kind(ld, e):
    """VarKind descriptor(s) of the Var a Location expression is based on."""
    out = set()
    for n in hir.walk(e):
        if n.get("k") == "path" and hir.res_local(n) is not None:
            d = ld.get(hir.res_local(n))
            if d and d[1] is not None and not (d[2] and d[2][0] == "arm"):
                out |= var_kind(ld, d[1])
            else:
                out.add("name:" + n["res"]["name"])
        if n.get("k") == "struct":
            for f in n["fields"]:
                if f[0] == "kind":
                    out.add(str(hir.result_desc(f[1])))
    return out


DEST_FIELDS = ("to", "return_ptr")
SRC_FIELDS = ("from", "val", "args")


def _roles(F, b, callee_roles):
    """Role (DEST / SRC) of every parameter position of a lowering helper, derived from where the parameter ends up:
    the `to`/`return_ptr` vs `from`/`val`/`args` fields of lir::Instruction values it builds, and the roles of the
    parameters of the helpers it calls. Returns (roles: pos -> set, observations)."""
    ld = hir.LocalDefs(b.hir)
    obs = []
    for st in hir.nodes(b.hir["value"], "struct"):
        d = hir.res_def({"res": st["path"]}) or ""
        if "lir::Instruction::" not in d and not d.startswith("lir::Instruction"):
            continue
        for f in st["fields"]:
            role = "DEST" if f[0] in DEST_FIELDS else "SRC" if f[0] in SRC_FIELDS else None
            if role:
                obs.append((hir.param_roots(b.hir, ld, f[1]) - {0}, role, st["line"], "%s.%s" % (hir.last(d), f[0])))
    for c in hir.nodes(b.hir["value"], "mcall"):
        cr = callee_roles.get(c["m"])
        if not cr:
            continue
        for i, a in enumerate(c["args"]):
            for role in cr.get(i + 1, ()):
                obs.append((hir.param_roots(b.hir, ld, a) - {0}, role, c["line"], "%s(arg %d)" % (c["m"], i + 1)))
    # only parameters that carry an address/variable have a direction (not field lists, types, sizes)
    carriers = {i for i, p in enumerate(b.hir["params"]) if any(x in (p.get("ty") or "") for x in ("Var", "Location", "Operand"))}
    roles = {}
    for ps, role, _l, _w in obs:
        for q in ps & carriers:
            roles.setdefault(q, set()).add(role)
    return roles, obs


def rule_l2(F):
    r = RuleResult("C02.L2", "clone direction: the return slot of a generated clone function only ever reaches destination operands, its parameter only source operands, through every helper (roles by parameter position)", floor=6)

    def body_of(name, where):
        ps = [p for p in F.paths() if p.endswith("::" + name) and where in p and "{closure" not in p]
        if not ps:
            r.missing(name)
            return None
        return F.body(ps[0])
    known = {}
    # primitive emitters: roles come from the Instruction fields alone
    for fn in ("emit_memcpy", "emit_clone", "emit_read", "emit_write"):
        b = body_of(fn, "lir::lower")
        if b is None:
            continue
        roles, obs = _roles(F, b, {})
        known[fn] = roles
        r.inst("roles of " + fn, {"fn": fn, "roles_by_position": {str(k): sorted(v) for k, v in roles.items()}})
    chain = [("call_clone_function", "clones"), ("call_clone_of", "clones"), ("generate_clone_body_record", "clones"), ("generate_clone_body_enum", "clones")]
    # every method of the clone lowering takes part (helpers extracted from the bodies carry the roles onward): roles to a fixpoint
    module = [bb for bb in F.all_bodies() if bb.mir and "lir::lower::clones" in bb.path and "{closure" not in bb.path]
    for _round in range(4):
        for bb in module:
            nm = hir.last(bb.path)
            if nm in ("generate_clone_body",):
                continue
            roles_, _ = _roles(F, bb, known)
            if roles_:
                known[nm] = roles_
    reaches_clone = {"call_clone_of"}
    grow = True
    while grow:
        grow = False
        for bb in module:
            nm = hir.last(bb.path)
            if nm not in reaches_clone and any(hir.last(mir.callee(t) or "") in reaches_clone for _, t in mir.calls(bb)):
                reaches_clone.add(nm)
                grow = True
    extra = [(hir.last(bb.path), "clones") for bb in module if hir.last(bb.path) not in [c[0] for c in chain] and hir.last(bb.path) != "generate_clone_body" and known.get(hir.last(bb.path))
             and any(len(v) > 1 for v in known[hir.last(bb.path)].values())]
    for fn, where in chain + extra:
        b = body_of(fn, where)
        if b is None:
            continue
        roles, obs = _roles(F, b, known)
        known[fn] = roles
        r.inst("roles of " + fn, {"fn": fn, "roles_by_position": {str(k): sorted(v) for k, v in roles.items()},
                                  "observations": len(obs)})
        mixed = sorted(k for k, v in roles.items() if len(v) > 1)
        for k in mixed:
            wh = sorted({w for ps, role, _l, w in obs if k in ps})
            r.bad(b.path, "direction of parameter %d" % k, relfile(b.file), b.line,
                  "parameter %d of %s reaches both destination and source operands (%s): somewhere the clone is written in the wrong direction" % (k, fn, ", ".join(wh)))
        dests = [k for k, v in roles.items() if v == {"DEST"}]
        srcs = [k for k, v in roles.items() if v == {"SRC"}]
        if not mixed and (len(dests) != 1 or len(srcs) != 1):
            r.bad(b.path, "direction", relfile(b.file), b.line, "%s must have exactly one destination and one source parameter (found dest=%s src=%s)" % (fn, dests, srcs))
        if fn.startswith("generate_clone_body_"):
            n = sum(1 for _, t_ in mir.calls(b) if hir.last(mir.callee(t_) or "") in reaches_clone)
            if n == 0:
                r.bad(b.path, "call_clone_of", relfile(b.file), b.line, "%s no longer clones its fields" % fn)
    # the anchor: generate_clone_body hands the VarKind::Return variable to the destination position and the parameter to the source
    gb = body_of("generate_clone_body", "clones")
    if gb is not None:
        ld = hir.LocalDefs(gb.hir)

        def kind_of(e):
            out = set()
            e = hir.peel_refs(hir.strip(e))
            l = hir.res_local(e) if e.get("k") == "path" else None
            d = ld.get(l) if l is not None else None
            init = d[1] if d else e
            for st in hir.nodes(init or {}, "struct"):
                for f in st["fields"]:
                    if f[0] == "kind":
                        out.add(hir.last(str(hir.result_desc(f[1]) or "")).split("(")[0])
            return out
        for c in hir.nodes(gb.hir["value"], "mcall"):
            cr = known.get(c["m"])
            if c["m"] not in ("generate_clone_body_record", "generate_clone_body_enum") or not cr:
                continue
            for i, a in enumerate(c["args"]):
                role = cr.get(i + 1)
                if not role or len(role) != 1:
                    continue
                ks = kind_of(a)
                want = "Return" if role == {"DEST"} else "Explicit"
                r.inst("%s arg %d" % (c["m"], i + 1), {"callee": c["m"], "position": i + 1, "role": sorted(role), "var_kind": sorted(ks)})
                if ks != {want}:
                    r.bad(gb.path, "%s arg %d" % (c["m"], i + 1), relfile(gb.file), c["line"],
                          "the %s position of %s receives a variable of kind %s (expected VarKind::%s): the generated clone copies in the wrong direction" % ("destination" if want == "Return" else "source", c["m"], sorted(ks), want))
        for st in hir.nodes(gb.hir["value"], "struct"):
            d = hir.res_def({"res": st["path"]}) or ""
            if d.endswith("Instruction::Clone"):
                fd = dict((f[0], f[1]) for f in st["fields"])
                kt, kf = kind_of(fd.get("to", {})), kind_of(fd.get("from", {}))
                r.inst("runtime clone in generate_clone_body", {"to": sorted(kt), "from": sorted(kf)})
                if kt != {"Return"} or kf != {"Explicit"}:
                    r.bad(gb.path, "runtime clone direction", relfile(gb.file), st["line"], "Instruction::Clone { to <- %s, from <- %s }" % (sorted(kt), sorted(kf)))
        for c in hir.nodes(gb.hir["value"], "mcall"):
            if c["m"] == "emit_memcpy" and known.get("emit_memcpy"):
                for i, a in enumerate(c["args"]):
                    role = known["emit_memcpy"].get(i + 1)
                    if role and len(role) == 1:
                        ks = kind_of(a)
                        want = "Return" if role == {"DEST"} else "Explicit"
                        r.inst("memcpy in generate_clone_body arg %d" % (i + 1))
                        if ks != {want}:
                            r.bad(gb.path, "memcpy arg %d" % (i + 1), relfile(gb.file), c["line"], "emit_memcpy receives VarKind %s in its %s position" % (sorted(ks), sorted(role)))
    return r


def rule_l3(F):
    r = RuleResult("C02.L3", "who is shared: lists alias through Arc<Mutex<..>>, strings are immutable, reading a variable copies it", floor=5)
    er = F.adt("value::list::ErasedList")
    if er is None:
        r.missing("value::list::ErasedList")
    else:
        tys = [f["ty"] for f in er["variants"][0]["fields"]]
        cl = [i for i in F.impls() if i.get("self_adt") == er["path"] and i.get("trait") == "std::clone::Clone"]
        r.inst("ErasedList", {"fields": tys, "clone_derived": [i["derived"] for i in cl]})
        if tys != ["std::sync::Arc<std::sync::Mutex<value::list::RawList>>"]:
            r.bad(er["path"], "shape", relfile(er["file"]), er["line"], "ErasedList must be exactly Arc<Mutex<RawList>> (found %s): copies of a list would no longer alias" % tys)
        if not cl or not all(i["derived"] for i in cl):
            r.bad(er["path"], "Clone", relfile(er["file"]), er["line"], "Clone for ErasedList must be the derived Arc clone (a deep copy would break list sharing)")
    li = F.adt("value::list::boundary::List")
    if li is None:
        r.missing("value::list::boundary::List")
    else:
        r.inst("List<T>", {"repr": li["repr"], "fields": [f["ty"] for f in li["variants"][0]["fields"]]})
        if "transparent" not in li["repr"]:
            r.bad(li["path"], "repr", relfile(li["file"]), li["line"], "List<T> must be repr(transparent) over ErasedList")
        cb = None
        for p in F.paths():
            if p.startswith("<value::list::boundary::List<T> as std::clone::Clone>::clone"):
                cb = F.body(p)
        if cb is None:
            r.missing("Clone for List<T>")
        else:
            ok = False
            for st in hir.nodes(cb.hir["value"], "struct"):
                fd = dict((f[0], f[1]) for f in st["fields"])
                v = hir.strip(fd.get("inner", {}))
                ok = v.get("k") == "mcall" and v["m"] == "clone" and hir.peel_refs(v["recv"]).get("n") == "inner"
            r.inst("List<T>::clone clones the handle", {"ok": ok})
            if not ok:
                r.bad(cb.path, "clone", relfile(cb.file), cb.line, "List<T>::clone must clone the shared handle (inner.clone())")
    sd = F.adt("value::string::StringData")
    rs = F.adt("value::string::RotoString")
    if sd is None or rs is None:
        r.missing("value::string::StringData / RotoString")
    else:
        t1 = [f["ty"] for f in sd["variants"][0]["fields"]]
        t2 = [f["ty"] for f in rs["variants"][0]["fields"]]
        r.inst("strings", {"StringData": t1, "RotoString": t2})
        if t1 != ["std::sync::Arc<str>"] or t2 != ["value::string::StringData"]:
            r.bad(rs["path"], "shape", relfile(rs["file"]), rs["line"], "strings must wrap an immutable Arc<str> (found %s / %s): a mutable shared buffer would make string copies alias" % (t1, t2))
    pv = F.body("mir::lower::Lowerer::<'r>::path_value")
    if pv is None:
        r.missing("mir::lower::Lowerer::path_value")
    else:
        for m in hir.find_match_on(pv.hir["value"], "ValueKind::", min_arms=2):
            for row in hir.table(m):
                if "ValueKind::Local" in row["alts"]:
                    r.inst("path_value Local", {"yields": row["result"]})
                    moves = [c for c in hir.nodes(row["body"], "call") if (hir.call_def(c) or "").endswith("Value::Move")]
                    if moves:
                        r.bad(pv.path, "local read moves", relfile(pv.file), moves[0]["line"], "reading a local variable can yield Value::Move: the variable is moved out instead of copied, so a later use reads a moved value")
                    if row["result"] != "Value::Clone(..)":
                        r.bad(pv.path, "local read", relfile(pv.file), row["line"], "reading a local variable yields %s instead of Value::Clone: the variable would be moved out or aliased" % row["result"])
    return r


def rule_l4(F):
    """A record / enum / list literal captures the value each component had when it was evaluated: the lowered value of a
    component (a lazy read of a variable) is stored before the next component runs (shared with C08.O4 / C01.T5)."""
    from . import c08
    r = c08.rule_o4(F)
    r.rule = "C02.L4"
    r.desc = "aggregate literals copy each component when it is evaluated: no lazily lowered component value is read after a later component ran"
    for v in r.violations:
        v.rule = "C02.L4"
    return r


def rule_l5(F):
    """The host-side mirrors of the built-in enums place their payloads where generated code does: exactly #[repr(u8)]
    (tag byte, then each variant's payload at 1 rounded up to its own alignment) - shared with C05.A1."""
    from . import c05
    r0 = c05.rule_a1(F)
    r = RuleResult("C02.L5", "host-side enum mirrors (Option/Result/Verdict) are exactly repr(u8): payload offsets agree with the per-variant walks of L1", floor=3)
    r.instances = [k for k in r0.instances if "::" in k and "|" not in k][:3] or r0.instances[:3]
    r.samples = r0.samples[:3]
    r.anchor_missing = list(r0.anchor_missing)
    for v in r0.violations:
        if v.disc == "repr":
            v.rule = "C02.L5"
            r.violations.append(v)
    return r


def _untry(e):
    """`x?` -> x"""
    e = hir.peel_refs(hir.strip(e))
    while isinstance(e, dict) and e.get("k") == "match" and str(e.get("src", "")).startswith("TryDesugar"):
        inner = hir.strip(e["e"])
        if inner.get("k") == "call" and inner.get("args"):
            e = hir.peel_refs(hir.strip(inner["args"][0]))
        else:
            break
    return e


def _follow(ld, e, depth=0):
    e = _untry(e)
    while depth < 12 and isinstance(e, dict):
        if e.get("k") == "mcall" and e["m"] in ("clone", "to_vec", "to_owned", "iter", "cloned", "copied", "collect", "into_iter", "as_slice", "as_ref", "enumerate", "by_ref", "peekable") and not e["args"]:
            e = _untry(e["recv"])
        elif e.get("k") == "path" and hir.res_local(e) is not None:
            d = ld.get(hir.res_local(e))
            if d is None or d[1] is None or d[2] != () or (d[2] and d[2][0] == "arm"):
                break
            e = _untry(d[1])
        else:
            break
        depth += 1
    return e


def rule_l6(F):
    """A record value is a block of bytes laid out in the field order of its type.  When a record *variable* (the inferred type of a
    literal) is unified with a concrete record type, every value of the variable's type is from then on read with the type the
    variable is bound to - so that type must list the fields in the order of the concrete record (whose values already exist with
    that layout), not in the order in which the literal happened to spell them."""
    r = RuleResult("C02.L6", "a record variable unified with a concrete record is bound to a type with the concrete record's field order", floor=2)
    bs = [F.body(p) for p in F.paths() if p.endswith("TypeChecker::unify_inner")]
    uf = [F.body(p) for p in F.paths() if p.endswith("TypeChecker::unify_fields")]
    if not bs or not uf:
        r.missing("TypeChecker::unify_inner / unify_fields")
        return r
    b = bs[0]
    ld = hir.LocalDefs(b.hir)
    # unify_fields returns the fields in the order of the parameter it iterates over with `for`
    ufb = uf[0]
    order_param = None
    params = [p_.get("local") for p_ in ufb.hir.get("params", []) if p_.get("k") == "bind"]
    uld = hir.LocalDefs(ufb.hir)
    for n in hir.walk(ufb.hir["value"]):
        if n.get("k") == "mcall" and n["m"] == "push" and n.get("args"):
            pass
    for n in hir.walk(ufb.hir["value"]):
        if n.get("k") in ("for", "loop", "match") and str(n.get("src", "")).startswith("ForLoop") and isinstance(n.get("e"), dict):
            it = _follow(uld, hir.strip(n["e"])["args"][0]) if hir.strip(n["e"]).get("k") == "call" and hir.strip(n["e"]).get("args") else None
            if it is not None and it.get("k") == "path" and hir.res_local(it) in params:
                order_param = params.index(hir.res_local(it)) - 1  # position among the non-self parameters
                break
    r.inst("unify_fields result order", {"ordered_like_parameter": order_param})
    if order_param is None:
        r.missing("the loop in unify_fields that fixes the order of the returned fields")
        return r
    n_arms = 0
    for m in hir.nodes(b.hir["value"], "match"):
        for arm in m["arms"]:
            pat = arm["pat"]
            if pat.get("k") != "ptuple" or len(pat.get("pats") or []) != 2:
                continue
            sides = []
            for sp in pat["pats"]:
                whole = None
                inner = sp
                if sp.get("k") == "bind" and sp.get("sub") is not None:
                    whole = sp["local"]
                    inner = sp["sub"]
                alts = inner["pats"] if inner.get("k") == "or" else [inner]
                names_, binds = set(), {}
                for alt in alts:
                    while alt.get("k") == "pref":
                        alt = alt["pat"]
                    nm = hir.last(hir.res_def({"res": alt.get("res") or {}}) or "") if alt.get("k") == "pts" else None
                    names_.add(nm)
                    binds[nm] = [x.get("local") for x in (alt.get("pats") or []) if x.get("k") == "bind"]
                sides.append((names_, whole, binds))
            var_side = [x for x in sides if x[0] == {"RecordVar"}]
            conc_side = [x for x in sides if "Record" in x[0] and x is not (var_side[0] if var_side else None)]
            if len(var_side) < 1 or not conc_side:
                continue
            # (RecordVar, RecordVar | Record): the first side is the variable that is bound
            var = var_side[0]
            conc = conc_side[0]
            names = [sorted(str(n) for n in sides[0][0]), sorted(str(n) for n in sides[1][0])]
            n_arms += 1
            conc_fields_all = set(conc[2].get("Record") or []) | set(conc[2].get("RecordVar") or [])[-1:] if False else set(conc[2].get("Record") or [])
            if "RecordVar" in conc[2] and conc[2]["RecordVar"]:
                conc_fields_all.add(conc[2]["RecordVar"][-1])
            conc = (conc[0], conc[1], sorted(conc_fields_all))
            conc_fields = conc[2][0] if conc[2] else None
            vb = var[2].get("RecordVar") or []
            var_fields = vb[1] if len(vb) > 1 else None
            var = (var[0], var[1], vb)
            for c in hir.nodes(arm["body"], "mcall"):
                if c["m"] != "set" or len(c["args"]) != 2:
                    continue
                x = _follow(ld, c["args"][1])
                verdict = "unknown"
                if x.get("k") == "path" and hir.res_local(x) is not None and hir.res_local(x) == conc[1]:
                    verdict = "the concrete record itself"
                elif x.get("k") == "call" and hir.last(hir.call_def(x) or "") == "Record" and x.get("args"):
                    a = _follow(ld, x["args"][0])
                    if a.get("k") == "path" and hir.res_local(a) in conc[2]:
                        verdict = "a record built from the concrete record's fields"
                    elif a.get("k") == "mcall" and a["m"] == "unify_fields" and len(a["args"]) == 2:
                        first = _follow(ld, a["args"][order_param])
                        if first.get("k") == "path" and hir.res_local(first) in conc[2]:
                            verdict = "unify_fields ordered like the concrete record"
                        elif first.get("k") == "path" and hir.res_local(first) == var_fields:
                            verdict = "BAD: unify_fields ordered like the literal"
                r.inst("arm (%s, %s) line %s" % ("|".join(names[0]), "|".join(names[1]), arm.get("line")), {"line": c.get("line"), "variable_bound_to": verdict})
                if verdict.startswith("BAD"):
                    r.bad(b.path, "record variable bound to a record in the literal's field order", relfile(b.file), c.get("line"),
                          "the record variable is bound to a record type whose fields are listed in the order of the variable's own (literal) fields instead of the concrete record's: "
                          "values that already exist with the concrete layout are then read at the offsets of the other order (`let r = if c { {b: 7, a: 1} } else { p };` reads p.a as b)")
                elif verdict == "unknown":
                    r.missing("a recognised form of the type a record variable is bound to at line %s" % c.get("line"))
    if n_arms < 2:
        r.missing("the arms of unify_inner that pair a record variable with a concrete record, one for each side (found %d)" % n_arms)
    return r


def rule_l7(F):
    """`==` / `!=` compare structurally, also through a list component of a record or enum: the generated equality of an aggregate
    calls the list's runtime equality, which answers true only for lists of the same length (shared with C15.M6: the element loop
    lies behind a comparison of both lengths, read under the locks the loop holds)."""
    from . import c15
    r = c15.rule_m6(F)
    r.rule = "C02.L7"
    r.desc = "structural equality through list components: the element-wise comparison of two lists only runs behind a comparison of both lengths"
    for v in r.violations:
        v.rule = "C02.L7"
    return r


def rule_l8(F):
    """Copying an aggregate copies every component: the generators of clone bodies walk the fields with a LayoutBuilder, and once the
    offset of a component has been computed (`builder.add`) the only way to the next component is through the per-component copy
    (`call_clone_of`, directly or in a helper that reaches it).  A path that computes an offset and moves on without it (gathering
    plain fields for one big memcpy, skipping fields 'that need no clone') leaves bytes of the copy uninitialised as soon as the
    hand-made size differs from what the walk would have copied (padding between two gathered fields)."""
    from ..callgraph import CallGraph
    r = RuleResult("C02.L8", "clone bodies: between computing a component's offset and moving to the next component, the component is handed to the per-component copy", floor=2)
    bodies = [b for b in F.bodies_in(["src/lir/lower/clones.rs"]) if b.mir and "{closure" not in b.path]
    base = [b.path for b in bodies if hir.last(b.path) == "call_clone_of"]
    if not base:
        r.missing("call_clone_of in src/lir/lower/clones.rs")
        return r
    # crate functions from which the per-component copy is reached on every call are treated as the copy itself: here simply
    # 'can reach' within the clone module (helpers extracted from the walkers)
    cg = CallGraph(F)
    copiers = set(base)
    for b in bodies:
        if b.path in copiers:
            continue
        reach, _ = cg.reachable([b.path])
        if any(x in reach for x in base) and not any(hir.last(mir.callee_def(t) or "") == "add" and "LayoutBuilder" in (mir.callee(t) or "") for _, t in mir.calls(b)):
            copiers.add(b.path)
    for b in bodies:
        adds = [(bi, t) for bi, t in mir.calls(b) if hir.last(mir.callee_def(t) or "") == "add" and "LayoutBuilder" in (mir.callee(t) or "")]
        if not adds:
            continue
        merged = {}
        for h, nodes in mir.natural_loops(b):
            merged.setdefault(h, set()).update(nodes)
        for bi, t in adds:
            inner = [(h, nodes) for h, nodes in merged.items() if bi in nodes]
            if not inner:
                continue   # the seed of a walk (tag byte) outside the loop
            h, nodes = min(inner, key=lambda x: len(x[1]))
            copy_blocks = {x for x, tt in mir.calls(b) if x in nodes and ((mir.callee(tt) or "") in copiers or (mir.callee_def(tt) or "") in copiers)}
            if not copy_blocks:
                continue   # a walk that only computes offsets (layout_of, field access): not a copier loop
            dest = (t.get("dest") or [None])[0]
            if dest is None or not any(dest in mir.rv_locals(st["rv"]) for blk in b.blocks for st in blk["stmts"] if st["k"] == "assign") and \
                    not any(mir.op_local(a) == dest or (mir.is_place_op(a) and a[1] and a[1][0] == dest) for _, tt in mir.calls(b) for a in tt.get("args") or []):
                continue   # an `add` whose offset is not used (the tag byte that seeds a variant walk) places no component
            r.inst("%s: add at line %s" % (hir.last(b.path), t.get("line")), {"fn": b.path, "copy_calls_in_loop": len(copy_blocks)})
            start = t.get("t")
            if start is None:
                continue
            seen = mir.reachable_from(b, start, stop=copy_blocks | {h})
            # leaving towards the next component (loop header) or out of the loop into code that returns, without the copy
            bypass = h in seen and start not in copy_blocks
            if not bypass:
                for x in seen:
                    if x in copy_blocks or x == h:
                        continue
                    for y in mir.succs(b.blocks[x]):
                        if y not in nodes and any(b.blocks[z]["term"]["k"] == "return" for z in mir.reachable_from(b, y)):
                            bypass = True
            if bypass:
                r.bad(b.path, "component offset computed but component not copied", relfile(b.file), t.get("line") or b.line,
                      "%s computes the offset of a component (LayoutBuilder::add) and can move on to the next component without handing this one to call_clone_of: "
                      "whatever copies it instead (a gathered memcpy, nothing at all) is not the walk the layout was computed with - e.g. `{ a: u8, b: u32, s: String }` "
                      "copied with a hand-summed size loses the tail of `b`" % hir.last(b.path))
    return r


def rule_l9(F):
    """Reading a constant (or a context field) yields an independent copy of the one evaluated value: the LIR lowering of
    `Value::Constant` / `Value::Context` is evaluated (vf/sx, all paths, private helpers followed) and on every path the only thing
    that happens with the destination is `call_clone_of(destination, Pointer { base: address of THIS constant taken on THIS path,
    offset }, type)`.  Storing the constant's address in the destination's own pointer variable (no copy: a callee that writes its
    by-reference parameter writes the constant) or serving the read from a value remembered earlier in the item (a load-once cache
    ignores which path was taken) are both reported.  Shared with C14.D5."""
    from .. import sx
    r = RuleResult("C02.L9", "a constant / context read is a clone from the constant's own address, taken on the same path (no aliasing of the constant's storage, no remembered loads)", floor=2)
    ps = [p for p in F.paths() if p.endswith("::assign") and p.startswith("lir::lower") and "{closure" not in p]
    if not ps:
        r.missing("lir::lower Lowerer::assign")
        return r
    b = F.body(ps[0])
    vpos = [i for i, p_ in enumerate(b.hir.get("params") or []) if "mir::Value" in str(p_.get("ty") or "")]
    if not vpos:
        r.missing("the mir::Value parameter of lir::lower assign")
        return r
    BASE = ("emit_", "new_tmp", "call_clone_of", "location", "lower_type", "needs_clone", "var", "literal", "layout_of", "call_drop_of")
    opaque = {p for p in F.paths() if p.startswith("lir::lower") and p != b.path and any(hir.last(p).startswith(x) for x in BASE)}
    for vname, val, allowed in (("Constant", ("ctor", "Constant", sx.Sym("name"), sx.Sym("cty")), {"location", "new_tmp", "emit_constant_address", "call_clone_of"}),
                                ("Context", ("ctor", "Context", sx.Sym("x")), {"location", "call_clone_of"})):
        try:
            paths = sx.Exec(F, opaque=opaque).paths(b.hir, {vpos[0]: val})
        except (sx.TooManyPaths, sx.Unknown) as e_:
            r.bad(b.path, "Value::%s" % vname, relfile(b.file), b.line, "cannot evaluate the lowering of Value::%s: %s" % (vname, e_))
            continue
        paths = [(res, evs) for res, evs in paths if res != ("diverges",)]
        cloned = 0
        problems = []
        for res, evs in paths:
            evs = [e for e in evs if e[0] == "mcall" or e[0] == "call"]
            names = [e[1] for e in evs]
            # what must not happen: the ADDRESS of the constant is stored as if it were the value (aliasing), or the read is served
            # from / recorded in a table of the lowerer (a remembered load).  Other emitted instructions (a Read of a scalar from the
            # address, a move of the loaded value) are copies as well and are not this rule's business.
            extra = [n for n in names if n in ("insert", "get", "entry", "contains_key", "get_mut", "get_or_insert_with")]
            for e in evs:
                if e[1] == "emit_assign":
                    a_ = e[3] if e[0] == "mcall" else e[2]
                    if any("Pointer" in str(sx.short(x, 200)) for x in a_[1:]):
                        extra.append("emit_assign of the constant's address")
            cl = [e for e in evs if e[1] == "call_clone_of"]
            if extra:
                problems.append("the read also does %s" % ", ".join(sorted(set(extra))))
                continue
            if not cl:
                continue      # no destination (a value that has no representation): nothing to copy
            cloned += 1
            a = cl[0][3] if cl[0][0] == "mcall" else cl[0][2]
            src = a[1] if len(a) >= 3 else None
            if vname == "Constant":
                addr = [e for e in evs if e[1] == "emit_constant_address"]
                ok = len(cl) == 1 and addr and sx.mentions(addr[0][3][1] if addr[0][0] == "mcall" else addr[0][2][1], "name") \
                    and src is not None and "new_tmp" in str(sx.short(src, 200)) and sx.mentions(a[2], "cty")
            else:
                ok = len(cl) == 1 and src is not None and "Context" in str(sx.short(src, 200)) and sx.mentions(src, "x")
            if not ok:
                problems.append("the clone is not taken from the value's own address (source %s)" % sx.short(src, 80))
        r.inst("Value::%s" % vname, {"paths": len(paths), "paths_that_clone": cloned, "problems": problems[:3]})
        if not cloned:
            problems.append("no path clones the value into the destination")
        for pr in sorted(set(problems))[:3]:
            r.bad(b.path, "Value::%s: %s" % (vname, pr[:60]), relfile(b.file), b.line,
                  "reading a %s: %s - the reader does not get an independent copy of the value the constant was evaluated to (a write through the copy reaches the constant, or a path that "
                  "skipped an earlier read sees an undefined value)" % ("constant" if vname == "Constant" else "context field", pr))
    return r


def rule_l10(F):
    """A value of a variant that no arm names is handled by the `_` arms: the MIR lowering of `match` keeps the default case of the
    discriminant switch unless EVERY variant has an arm of its own - a fact about the number of DISTINCT variants the arms name.
    The comparison with the number of variants therefore reads the size of a set / map keyed by the discriminant, never the length
    of a list of arms (two guarded arms for `Some` would count as two: the default is dropped, the LIR switch promotes some branch
    to default, and `None` binds the payload bytes of `Some`).  Shared with C05.A12."""
    r = RuleResult("C02.L10", "match lowering: the default case is dropped only when the number of DISTINCT variants named by the arms equals the number of variants", floor=1)
    ps = [p for p in F.paths() if p.startswith("mir::lower::match_expr::") and hir.last(p) in ("r#match", "match") and "{closure" not in p]
    if not ps:
        r.missing("mir::lower::match_expr Lowerer::match")
        return r
    b = F.body(ps[0])
    defs = mir.Defs(b)
    lens = {bi: t for bi, t in mir.calls(b) if hir.last(mir.callee_def(t) or "") == "len"}
    n = 0
    for bi, blk in enumerate(b.blocks):
        for st in blk["stmts"]:
            if st["k"] != "assign" or st["rv"]["k"] != "bin" or st["rv"].get("op") not in ("Lt", "Le", "Gt", "Ge", "Eq", "Ne"):
                continue
            a, c = st["rv"]["a"], st["rv"]["b"]
            if not (mir.is_place_op(a) and mir.is_place_op(c)):
                continue
            sides = []
            def direct_len(l, depth=0):
                """the `len` call whose result this value IS (through plain copies) - not the lengths that went into building the collection"""
                out = []
                for d in defs.whole_defs(l):
                    if d[2] == "call" and d[0] in lens:
                        out.append(d[0])
                    elif d[2] == "assign" and d[3]["rv"]["k"] == "use" and mir.is_place_op(d[3]["rv"]["o"]) and depth < 4:
                        out += direct_len(d[3]["rv"]["o"][1][0], depth + 1)
                return out
            for o in (a, c):
                ls_ = direct_len(o[1][0])
                sides.append([str(b.mir["locals"][lens[x]["args"][0][1][0]].get("ty") or "") for x in ls_ if mir.is_place_op(lens[x]["args"][0])])
            if not sides[0] or not sides[1]:
                continue
            tys = sides[0] + sides[1]
            variants_side = [t for t in tys if "Identifier" in t and "TyRef" in t]
            other = [t for t in tys if t not in variants_side]
            if not variants_side or not other:
                continue
            n += 1
            distinct = all(any(k in t for k in ("HashSet<", "HashMap<", "BTreeSet<", "BTreeMap<", "IndexSet<", "IndexMap<")) for t in other)
            r.inst("default decision line-free #%d" % n, {"line": st.get("line"), "compared_with_number_of_variants": other, "counts_distinct_variants": distinct})
            if not distinct:
                r.bad(b.path, "default case decided by counting arms", relfile(b.file), st.get("line") or b.line,
                      "whether the switch keeps its default case is decided by comparing the number of variants with the length of %s - a list of arms, in which a variant with several "
                      "(guarded) arms counts several times: the default is dropped although some variant has no arm of its own, and a value of that variant is matched as another "
                      "variant (its payload bytes bound by the wrong pattern)" % other)
    if n == 0:
        r.missing("the comparison that decides whether the match switch keeps its default case")
    return r


def _variant_bound(b, defs, target_bb):
    """the largest number of variants with which target_bb can be reached, as far as comparisons of a `len()` of a list of variants with
    a constant say (None: no such comparison guards it)"""
    lens = {bi for bi, t in mir.calls(b) if hir.last(mir.callee_def(t) or "") == "len" and t["args"] and mir.is_place_op(t["args"][0])
            and "ariant" in str(b.mir["locals"][t["args"][0][1][0]].get("ty") or "")}
    best = None
    for bi, blk in enumerate(b.blocks):
        t = blk["term"]
        if t["k"] != "switch" or not mir.is_place_op(t["o"]):
            continue
        for d in defs.whole_defs(t["o"][1][0]):
            if d[2] != "assign" or d[3]["rv"]["k"] != "bin" or d[3]["rv"]["op"] not in ("Gt", "Ge", "Lt", "Le"):
                continue
            a_, c_ = d[3]["rv"]["a"], d[3]["rv"]["b"]
            op = d[3]["rv"]["op"]
            ka, kc = mir.op_const(a_), mir.op_const(c_)
            if kc is not None and mir.is_place_op(a_) and (mir.back_calls(b, defs, a_[1][0]) & lens):
                n = kc.get("v")
            elif ka is not None and mir.is_place_op(c_) and (mir.back_calls(b, defs, c_[1][0]) & lens):
                n = ka.get("v")
                op = {"Gt": "Lt", "Ge": "Le", "Lt": "Gt", "Le": "Ge"}[op]      # c op len  ==  len op' c
            else:
                continue
            if not isinstance(n, int):
                continue
            tg = dict(t["targets"])
            f_edge, t_edge = tg.get(0), t["otherwise"]
            # `len > n` / `len >= n` true = too many; `len <= n` / `len < n` true = fine
            ok_edge, bad_edge = (f_edge, t_edge) if op in ("Gt", "Ge") else (t_edge, f_edge)
            allowed = n if op in ("Gt", "Le") else n - 1
            if ok_edge is None or bad_edge is None:
                continue
            behind = target_bb in (mir.reachable_from(b, ok_edge) | {ok_edge}) and target_bb not in (mir.reachable_from(b, bad_edge) | {bad_edge})
            if behind and (best is None or allowed < best):
                best = allowed
    return best


def rule_l11(F):
    """An enum value is (tag, payload) and the tag is ONE byte: `set_discriminant` writes `IrValue::U8(idx as u8)`, the generated
    equality / clone / drop bodies and `match` switch on a byte.  So the number of variants of a declared enum is bounded where the
    declaration is turned into a type: the construction of `TypeDefinition::Enum` from a list of variants of run-time length lies
    on the within-bounds side of a comparison of that length with a constant no larger than what the tag can tell apart.  (Without
    the bound `enum Big { V0, .., V299 }` makes `Big.V256` the same value as `Big.V0` - `match Big.V256 { V0 => true, _ => false }`
    is true - and any `==` or full `match` on it aborts the compiler in Cranelift's switch builder.)"""
    r = RuleResult("C02.L11", "enum tags are one byte: the definition of a declared enum bounds the number of variants by what the tag distinguishes", floor=2)
    WIDTH = {"U8": 256, "U16": 65536, "U32": 1 << 32}
    sd = [p for p in F.paths() if p.startswith("lir::lower") and hir.last(p) == "set_discriminant"]
    cap = None
    for p in sd:
        b = F.body(p)
        if b is None or not b.mir:
            continue
        for blk in b.blocks:
            for st in blk["stmts"]:
                if st["k"] == "assign" and st["rv"]["k"] == "agg" and hir.last(st["rv"].get("adt") or "") == "IrValue" and st["rv"].get("variant") in WIDTH:
                    c_ = WIDTH[st["rv"]["variant"]]
                    cap = c_ if cap is None else min(cap, c_)
                    r.inst("tag written by %s" % hir.last(p), {"fn": p, "tag": st["rv"]["variant"], "distinguishes": c_})
    if cap is None:
        r.missing("the tag write (IrValue::U8(idx as u8)) in lir::lower set_discriminant")
        return r
    sites = 0
    for b in F.bodies_in(["src/typechecker/mod.rs", "src/typechecker/types.rs", "src/typechecker/info.rs"]):
        if not b.mir or "::tests::" in b.path:
            continue
        aggs = [(bi, s_) for bi, s_ in mir.agg_sites(b, "typechecker::types::TypeDefinition") if s_["rv"].get("variant") == "Enum"]
        if not aggs:
            continue
        defs = mir.Defs(b)
        loops = mir.natural_loops(b)
        pushes = [bi for bi, t in mir.calls(b) if hir.last(mir.callee_def(t) or "") in ("push", "extend", "collect", "from_iter") and any(bi in nodes for _, nodes in loops)]
        if not pushes:
            continue        # built from a fixed list of variants (the built-in enums)
        lens = {bi for bi, t in mir.calls(b) if hir.last(mir.callee_def(t) or "") == "len" and t["args"] and mir.is_place_op(t["args"][0])
                and "ariant" in str(b.mir["locals"][t["args"][0][1][0]].get("ty") or "")}
        for abb, s_ in aggs:
            # a declaration is input: the variants derive from a parameter of the function (the built-in enums are built from a table
            # written in the function itself)
            from .c08 import deps
            roots = set()
            for o in s_["rv"].get("ops") or []:
                if mir.is_place_op(o):
                    roots |= {x.split(".")[0] for x in deps(b, defs, o[1][0])}
            if not any(x.startswith("arg") for x in roots):
                continue
            sites += 1
            best = _variant_bound(b, defs, abb)
            via = None
            if best is None:
                # the bound may be a helper of the type checker whose refusal is propagated (`self.check_variant_count(ident, &variants)?`)
                gs = mir.gates(b, defs)
                for g in gs:
                    if not mir.gated_through(b, defs, gs, g, abb):
                        continue
                    for c in g["chain"]:
                        hb = F.body(c[1]) if c[1] and c[1].startswith("typechecker::") and F.has(c[1]) else None
                        if hb is None or not hb.mir:
                            continue
                        rets_ok = [bi for bi, blk in enumerate(hb.blocks) for st in blk["stmts"] if st["k"] == "assign" and st["p"] == [0] and st["rv"]["k"] == "agg" and st["rv"].get("variant") == "Ok"]
                        hbest = None
                        for ob in rets_ok:
                            x = _variant_bound(hb, mir.Defs(hb), ob)
                            if x is None:
                                hbest = None
                                break
                            hbest = x if hbest is None else max(hbest, x)
                        if hbest is not None and (best is None or hbest < best):
                            best, via = hbest, c[1]
            r.inst("declared enum in %s" % hir.last(b.path), {"fn": b.path, "line": s_.get("line"), "variants_allowed": best, "tag_distinguishes": cap, "bound_in": via or b.path})
            if best is None or best > cap:
                r.bad(b.path, "number of variants not bounded by the tag", relfile(b.file), s_.get("line") or b.line,
                      "%s turns a declaration into an enum type without refusing more than %d variants (%s): the tag is one byte, variant %d gets the tag of variant 0 "
                      "(`match Big.V%d { V0 => true, _ => false }` is true) and a switch over all variants aborts the compiler in Cranelift"
                      % (hir.last(b.path), cap, "no comparison of the number of variants with a constant on the way" if best is None else "the bound found allows %d" % best, cap, cap))
    if sites == 0:
        r.missing("the construction of TypeDefinition::Enum from a declaration (variants collected in a loop) in src/typechecker")
    return r


def rule_l12(F):
    """A matched value is a value of its own: `match x { Some(y) if g => .., Some(z) => .. }` takes its bindings out of what `x` was
    when the match began, whatever a guard does to `x` meanwhile.  The MIR lowering stores the examinee in a temporary of the match
    on every path to the dispatch (shared with C03.F17, which needs it for the drops): matched in place, a guard that assigns to
    `x` changes what the later arms bind - a write through one name seen through another."""
    from . import c03
    r = c03.rule_f17(F)
    r.rule = "C02.L12"
    r.desc = "the examinee of a match is copied into a temporary of the match before the dispatch: arms bind what was matched, not what a guard made of the variable"
    for v in r.violations:
        v.rule = "C02.L12"
    return r


def rules(ctx):
    F = ctx["F"]
    return [rule_l1(F), rule_l2(F), rule_l3(F), rule_l4(F), rule_l5(F), rule_l6(F), rule_l7(F), rule_l8(F), rule_l9(F), rule_l10(F), rule_l11(F), rule_l12(F)]
