"""C05 - values cross the host boundary unchanged in both directions."""
import re

from .. import mir, hir
from ..facts import relfile
from ..report import RuleResult
from .c01 import field_roots
from .c04 import leaf_table, norm_rust
from .c09 import names

EXPLANATION = (
    "Equality of arbitrary values across an ABI is about machine code and rustc's calling convention and is not decided. Decided is "
    "the agreement of every table both sides derive layout and passing convention from: A1 the mirror enums RotoOption / RotoResult / "
    "Verdict are repr(u8), every variant has at most one field, their variant order equals the order of the Roto enums declared by "
    "the type checker, the Value impls of Option/Result/Verdict use exactly these mirrors as Transformed, and the discriminant "
    "constants written/read by hand (list_get, `?`, for) are the indices of Some/None in that order; A2 every primitive row "
    "Roto name <-> Rust type <-> Primitive::layout() equals rustc's own layout_of(Rust type) (size, align), with IntSize/FloatSize::int "
    "as bit widths; A3 by-value vs by-pointer: each impl Value's AsParam is the type itself exactly for the types the MIR pool "
    "treats as non-reference (Int/Float/Bool/Char/Asn, unit) and a *mut otherwise; A4 hidden-parameter order return pointer < context "
    "< parameters at every producer and consumer (declare_function, entry_block, Call, the two fn-pointer types of RotoFunc and the "
    "indirect calls in invoke) and function pointer < out pointer < parameters for runtime trampolines."
)
EXPLANATION += (  # round-3 supplement
    ' A6 every type erasure in List<T> and the value stored by Constant::new is T::Transformed. A7 types Rust passes by pointer are not elided from signatures (known finding). A1 requires exactly repr(u8).'
)
EXPLANATION += (
    ' A8 (= C18.I8) the Roto type under which a script reads a registered Rust value is built from the Rust type description constructor by constructor with the components in the same order. A9 a projected mir::Place built on a variable that assign_to_var(value, T) made carries root type T. A10 every by-value parameter of a signature declared for a host-compiled function (Linkage::Import) carries the argument extension of its IR type (bool/u8/u16 uext, i8/i16 sext), evaluated per IrType variant through the helper that builds it.'
)
ASSUMPTIONS = [
    "rustc's layout_of is the oracle for the layout of the Rust-side types",
    "context field offsets produced by offset_of! inside the proc-macro's quote! template are not resolved code and are not decided",
    "extern \"C\" passes scalars and pointers as declared, given that the declaration says how small integers are extended (A10) (cranelift / rustc ABI trusted)",
]

MIRRORS = {
    "value::option::RotoOption": ("Option", ["Some", "None"]),
    "value::result::RotoResult": ("Result", ["Ok", "Err"]),
    "value::verdict::Verdict": ("Verdict", ["Accept", "Reject"]),
}


def roto_enum_orders(F):
    """Variant names, in declaration order, of the built-in Roto enums (typechecker::types::default_types)."""
    out = {}
    cands = [p for p in F.paths() if p.endswith("default_types") and "typechecker::types" in p]
    for p in cands:
        b = F.body(p)
        if not b or not b.hir:
            continue
        # calls/structs EnumVariant { name: "Some".into(), ..} grouped per enum by the literal type name nearby
        seq = []
        for n in hir.walk(b.hir["value"]):
            if n.get("k") == "lit" and n.get("lk") == "str":
                seq.append(n["v"])
        for enum, (rname, order) in MIRRORS.items():
            if rname in seq:
                i = seq.index(rname)
                found = [x for x in seq[i + 1:i + 12] if x in order]
                out[rname] = found[:len(order)]
    return out


def rule_a1(F):
    r = RuleResult("C05.A1", "mirror enums: repr(u8), variant order = Roto enum order, used as Transformed, hand-written discriminants agree", floor=18)
    orders = roto_enum_orders(F)
    for path, (rname, want) in MIRRORS.items():
        a = F.adt(path)
        if a is None:
            r.missing(path)
            continue
        vs = [v["name"] for v in a["variants"]]
        nf = [len(v["fields"]) for v in a["variants"]]
        r.inst(path, {"repr": a["repr"], "variants": vs, "fields_per_variant": nf, "roto_order": orders.get(rname)})
        if not any("I8" in x and "false" in x for x in a["repr"]):
            r.bad(path, "repr", relfile(a["file"]), a["line"], "%s must be #[repr(u8)] (found %s): generated code reads and writes a one-byte tag at offset 0" % (path, a["repr"]))
        elif len(a["repr"]) != 1:
            r.bad(path, "repr", relfile(a["file"]), a["line"],
                  "%s must be exactly #[repr(u8)] (found %s): with an additional `C` (or packed/align) Rust places every payload at the alignment of the most-aligned variant, generated code places each payload at 1 rounded up to its own alignment" % (path, a["repr"]))
        if vs != want:
            r.bad(path, "variant order", relfile(a["file"]), a["line"], "variants are %s; scripts number them %s" % (vs, want))
        if orders.get(rname) is not None and orders.get(rname) != vs:
            r.bad(path, "roto order", relfile(a["file"]), a["line"], "the Roto enum %s declares %s but its Rust mirror declares %s: discriminants disagree" % (rname, orders.get(rname), vs))
        if orders.get(rname) is None:
            r.bad(path, "roto order", relfile(a["file"]), a["line"], "could not find the Roto declaration of %s in default_types()" % rname)
        if any(n > 1 for n in nf):
            r.bad(path, "fields", relfile(a["file"]), a["line"], "a mirror variant has more than one field: the Roto side lays out exactly one payload after the tag")
    # Transformed of the Value impls
    want_tr = {"std::option::Option<T>": "value::option::RotoOption<", "std::result::Result<T, E>": "value::result::RotoResult<", "value::verdict::Verdict<A, R>": "value::verdict::Verdict<"}
    for i in F.impls():
        if i.get("trait") == "value::Value" and i["self_ty"] in want_tr:
            tr = [x.get("ty") for x in i["items"] if x["name"] == "Transformed"]
            r.inst("Transformed of " + i["self_ty"], {"transformed": tr})
            if not tr or not tr[0].startswith(want_tr[i["self_ty"]]):
                r.bad(i["self_ty"], "Transformed", relfile(i["file"]), i["line"], "%s is transformed into %s, expected the repr(u8) mirror %s..>" % (i["self_ty"], tr, want_tr[i["self_ty"]]))
    # transform/untransform map variant X to X
    for p in F.paths():
        m = re.match(r"^<(std::option::Option<T>|std::result::Result<T, E>|value::verdict::Verdict<A, R>) as value::Value>::(transform|untransform)$", p)
        if not m:
            continue
        b = F.body(p)
        for mt in hir.nodes(b.hir["value"], "match"):
            for row in hir.table(mt):
                pv = hir.last(row["alts"][0].split("(")[0])
                rv = hir.last((row["result"] or "").replace("(..)", ""))
                r.inst("%s %s" % (hir.last(p), row["alts"][0].split("(")[0]))
                if pv != rv:
                    r.bad(p, "variant " + pv, relfile(b.file), row["line"], "%s maps variant %s to %s" % (p, pv, rv))
    # hand-written discriminants
    lg = F.body("value::list::ffi::list_get")
    if lg is None:
        r.missing("value::list::ffi::list_get")
    else:
        ro = [a for a in F.adts() if a["path"] == "value::option::RotoOption"]
        vnames = [v["name"] for v in ro[0]["variants"]] if ro else []
        if "Some" not in vnames or "None" not in vnames:
            r.missing("variants of value::option::RotoOption")
            return r
        some_idx, none_idx = vnames.index("Some"), vnames.index("None")
        # forward dataflow over list_get: (last tag written, element copied/cloned yet)
        def tag_of(t):
            d = mir.callee_def(t) or ""
            if hir.last(d) in ("write", "write_unaligned", "write_volatile") and "ptr" in d and len(t["args"]) > 1:
                c = mir.op_const(t["args"][1])
                if c is not None and isinstance(c.get("v"), int) and "u8" in str(c.get("ty", "u8")):
                    return c["v"]
            return None

        def copies(t):
            d = mir.callee_def(t) or ""
            return "ind" in t["f"] or hir.last(d) in ("copy_nonoverlapping", "copy", "clone")

        def tag_param_of(path):
            """a helper that writes the tag it is handed (`write_discriminant(out, NONE)`): the 1-based position of that parameter"""
            hb_ = F.body(path) if path and F.has(path) else None
            if hb_ is None or not hb_.mir or not path.startswith("value::list::"):
                return None
            for _, t2 in mir.calls(hb_):
                d2 = mir.callee_def(t2) or ""
                if hir.last(d2) in ("write", "write_unaligned", "write_volatile") and "ptr" in d2 and len(t2["args"]) > 1 and mir.is_place_op(t2["args"][1]):
                    root_, _p = mir.origin(hb_, mir.Defs(hb_), t2["args"][1][1])
                    if root_.startswith("arg") and root_[3:].isdigit():
                        l2 = int(root_[3:])
                        if 1 <= l2 <= hb_.mir.get("argc", 0) and "u8" in str(hb_.mir["locals"][l2].get("ty") or ""):
                            return l2
            return None
        bad_pre = []

        def flow(body, states, depth=0):
            """states at the returns of `body` when entered with `states`; a call of a helper of the ffi module is followed"""
            nb = len(body.blocks)
            sin = [set() for _ in range(nb)]
            sin[0] = set(states)
            work = [0]
            fin = set()
            while work:
                bi = work.pop()
                blk = body.blocks[bi]
                if blk.get("cleanup"):
                    continue
                t = blk["term"]
                out = set(sin[bi])
                if t["k"] == "call":
                    tg = tag_of(t)
                    if tg is None:
                        k_ = tag_param_of(mir.callee(t) or "")
                        if k_ is not None and len(t["args"]) >= k_:
                            c_k = mir.op_const(t["args"][k_ - 1])
                            if c_k is not None and isinstance(c_k.get("v"), int):
                                tg = c_k["v"]
                    hb = F.body(mir.callee(t) or "") if (mir.callee(t) or "").startswith("value::list::") and depth < 2 else None
                    if hb is not None and hb.mir and not (mir.callee(t) or "").startswith("value::list::ffi::") and \
                            not any(tag_of(t2) is not None or copies(t2) for _, t2 in mir.calls(hb)):
                        hb = None    # a helper of the list proper is followed when it writes a tag or copies an element (`raw.clone_elem_into(src, dst)`)
                    if tg is not None:
                        out = {(tg, c_) for _, c_ in out}
                    elif hb is not None and hb.mir and hb.path != body.path:
                        out = flow(hb, out, depth + 1)
                    elif copies(t):
                        if any(last != none_idx for last, _ in out):
                            bad_pre.append(t.get("line"))
                        out = {(last, True) for last, _ in out}
                if t["k"] == "return":
                    fin |= out
                for sx in mir.succs(blk):
                    if body.blocks[sx].get("cleanup"):
                        continue
                    if not out <= sin[sx]:
                        sin[sx] |= out
                        work.append(sx)
            return fin
        finals = flow(lg, {(None, False)})
        rows = {"after copying the element": sorted({str(l) for l, c_ in finals if c_}), "without an element": sorted({str(l) for l, c_ in finals if not c_}),
                "tag while the element is copied": "None" if not bad_pre else "not None at line %s" % bad_pre[0]}
        r.inst("list_get discriminants", rows)
        if not any(c_ for _, c_ in finals) or any(l != some_idx for l, c_ in finals if c_) or bad_pre:
            r.bad(lg.path, "Some discriminant", relfile(lg.file), lg.line, "list_get must end the Some case by writing tag %d (and pre-write %d while cloning); writes %s" % (some_idx, none_idx, rows))
        if not any(not c_ for _, c_ in finals) or any(l != none_idx for l, c_ in finals if not c_):
            r.bad(lg.path, "None discriminant", relfile(lg.file), lg.line, "list_get must write tag %d for None; writes %s" % (none_idx, rows))

    def switch_lits(b):
        """integer constants in the `branches` argument of emit_switch, or of a helper that hands its branches on to emit_switch"""
        out = []
        for c in hir.nodes(b.hir["value"], "mcall"):
            fwd = c["m"] == "emit_switch"
            if not fwd and c.get("def"):
                hb = F.body(c["def"])
                if hb is not None and hb.hir and "Lowerer" in hb.path:
                    pidx = hir.param_index(hb.hir)
                    for c2 in hir.nodes(hb.hir["value"], "mcall"):
                        if c2["m"] == "emit_switch" and len(c2["args"]) > 1:
                            a1 = hir.peel_refs(hir.strip(c2["args"][1]))
                            fwd = fwd or (a1.get("k") == "path" and hir.res_local(a1) in pidx)
            if not fwd:
                continue
            for a in c["args"]:
                if "Vec<(usize" in str(hir.strip(a).get("ty") or ""):
                    out.append([n.get("v") for n in hir.walk(a) if n.get("k") == "lit" and n.get("lk") == "int"])
        return out
    for fn, var in (("question_mark", "Some"), ("r#for", "Some")):
        b = F.body("mir::lower::Lowerer::<'r>::" + fn)
        if b is None:
            r.missing("Lowerer::" + fn)
            continue
        ls = switch_lits(b)
        ok = bool(ls) and all(x == [0] for x in ls)
        r.inst("%s switches on Some = 0" % fn, {"ok": ok, "branch_constants": ls})
        if not ok:
            r.bad(b.path, "Some discriminant", relfile(b.file), b.line, "%s must take the Some path on discriminant 0" % fn)
    return r


def prim_layout_rows(F):
    """Primitive::layout(): variant -> ('new', size, align) | ('of', rust type, (size, align)) | ('bits',)"""
    ps = [p for p in F.paths() if p.endswith("Primitive::layout")]
    if not ps:
        return None, None
    b = F.body(ps[0])
    rows = {}
    for m in hir.find_match_on(b.hir["value"], "Primitive::", min_arms=4):
        for row in hir.table(m):
            body = hir.strip(row["body"])
            for a in row["alts"]:
                v = a.split("::")[1].split("(")[0]
                calls = [c for c in hir.nodes(row["body"], "call")]
                desc = None
                for c in calls:
                    d = hir.call_def(c) or ""
                    if d.endswith("Layout::new"):
                        lits = [hir.strip(x).get("v") if hir.strip(x).get("k") == "lit" else None for x in c["args"]]
                        desc = ("new", lits[0], lits[1]) if None not in lits else ("bits",)
                    if d.endswith("Layout::of"):
                        ga = c["f"].get("gargs") or []
                        desc = ("of", ga[0] if ga else None)
                rows[v] = desc
    return b, rows


def rule_a2(F):
    r = RuleResult("C05.A2", "primitive rows: Roto name <-> Rust type <-> Primitive::layout() == rustc layout_of(Rust type)", floor=20)
    _, leaf, _ = leaf_table(F)
    if not leaf:
        r.missing("leaf table (codegen::check::check_roto_type)")
        return r
    # rustc layouts from the TypeId::of::<T>() calls of the gate
    lay = {}
    for cb in F.bodies_in(["src/codegen/check.rs"]):          # the gate and the private helpers that hold its table
        if not cb.mir or "::tests::" in cb.path:
            continue
        for _, t in mir.calls(cb):
            f = t["f"]
            if "garg_layout" in f and (f.get("def") or "").endswith("TypeId::of"):
                lay[norm_rust(f["gargs"][0])] = tuple(f["garg_layout"])
    pb, rows = prim_layout_rows(F)
    if pb is None or not rows:
        r.missing("Primitive::layout")
        return r
    # bit widths
    widths = {}
    for fn in ("IntSize::int", "FloatSize::int"):
        ps = [p for p in F.paths() if p.endswith(fn)]
        if not ps:
            r.missing(fn)
            continue
        b = F.body(ps[0])
        for m in hir.nodes(b.hir["value"], "match"):
            for row in hir.table(m):
                body = hir.strip(row["body"])
                if body.get("k") == "lit":
                    widths[hir.last(row["alts"][0])] = body["v"]
    for k, v in widths.items():
        r.inst("width " + k, {"size_variant": k, "bits": v})
        want = int(re.sub(r"\D", "", k))
        if v != want:
            r.bad("typechecker::types", "width " + k, "src/typechecker/types.rs", 0, "%s is %s bits wide, expected %d" % (k, v, want))

    def roto_layout(name):
        m = re.match(r"^([iuf])(\d+)$", name)
        if m:
            kind = "Float" if m.group(1) == "f" else "Int"
            if rows.get(kind) != ("bits",):
                return None
            key = ("F" if kind == "Float" else "I") + m.group(2)
            bits = widths.get(key)
            return (bits // 8, bits // 8) if bits else None
        v = {"bool": "Bool", "char": "Char", "Asn": "Asn", "String": "String", "IpAddr": "IpAddr", "Prefix": "Prefix"}.get(name)
        d = rows.get(v)
        if d is None:
            return None
        if d[0] == "new":
            return (d[1], d[2])
        if d[0] == "of":
            return lay.get(norm_rust(d[1]))
        return None
    for (rust, name, line) in leaf:
        nr = norm_rust(rust)
        got = roto_layout(name)
        want = lay.get(nr)
        r.inst("row " + name, {"roto": name, "rust": nr, "roto_layout": got, "rustc_layout": want})
        if got is None or want is None:
            r.bad("Primitive::layout", "row " + name, relfile(pb.file), pb.line, "cannot determine the layout of `%s` on both sides (roto %s, rustc %s)" % (name, got, want))
        elif tuple(got) != tuple(want):
            r.bad("Primitive::layout", "row " + name, relfile(pb.file), pb.line,
                  "Roto lays out `%s` as (size %s, align %s) but rustc lays out %s as (size %s, align %s): values are read at the wrong offset or truncated at the boundary" % (name, got[0], got[1], nr, want[0], want[1]))
        # Layout::of::<X>() rows must name the registered Rust type
        v = {"char": "Char", "String": "String", "IpAddr": "IpAddr", "Prefix": "Prefix"}.get(name)
        d = rows.get(v) if v else None
        if d and d[0] == "of" and norm_rust(d[1]) != nr:
            r.bad("Primitive::layout", "row %s type" % name, relfile(pb.file), pb.line, "layout of `%s` is taken from %s but the registered Rust type is %s" % (name, d[1], nr))
    return r


def rule_a3(F):
    r = RuleResult("C05.A3", "by-value vs by-pointer agreement between Value::AsParam and the MIR pool's is_reference_type", floor=25)
    ib = F.body("mir::ty::Pool::is_reference_type")
    if ib is None:
        r.missing("mir::ty::Pool::is_reference_type")
        return r
    by_value = set()
    for m in hir.find_match_on(ib.hir["value"], "Ty::", min_arms=2):
        for row in hir.table(m):
            body = hir.strip(row["body"])
            while body.get("k") == "call" and hir.last(hir.call_def(body) or "") == "Some" and len(body.get("args") or []) == 1:
                body = hir.strip(body["args"][0])    # the answer may be wrapped arm by arm (`=> Some(false)`)
            if body.get("k") == "lit" and body.get("v") is False:
                for a in row["alts"]:
                    for x in re.findall(r"Primitive::(\w+)", a):
                        by_value.add(x)
                    if a.startswith("Ty::Unit"):
                        by_value.add("Unit")
    r.inst("non-reference kinds", {"kinds": sorted(by_value)})
    if by_value != {"Int", "Float", "Bool", "Char", "Asn", "Unit"}:
        r.note("non-reference kinds are %s" % sorted(by_value))
    _, leaf, _ = leaf_table(F)
    kind_of = {}
    for (rust, name, _) in leaf or []:
        k = "Int" if re.match(r"^[iu]\d+$", name) else "Float" if re.match(r"^f\d+$", name) else {"bool": "Bool", "char": "Char", "Asn": "Asn", "String": "String", "IpAddr": "IpAddr", "Prefix": "Prefix"}.get(name)
        kind_of[norm_rust(rust)] = k
    kind_of["()"] = "Unit"
    reviewed_other = {"value::dyn_val::DynVal": "internal pointer wrapper passed by value (it *is* the pointer)"}
    for i in F.impls():
        if i.get("trait") != "value::Value":
            continue
        st = i["self_ty"]
        ap = [x.get("ty") for x in i["items"] if x["name"] == "AsParam"]
        ap = ap[0] if ap else None
        k = kind_of.get(norm_rust(st))
        expect_value = k in by_value if k else False
        is_value = ap == st
        is_ptr = bool(ap) and ap.startswith("*mut ")
        r.inst("impl Value for " + st, {"type": st, "roto_kind": k, "as_param": ap, "expected": "by value" if expect_value else "by pointer"})
        if st in reviewed_other:
            continue
        if expect_value and not is_value:
            r.bad(st, "AsParam", relfile(i["file"]), i["line"], "%s is a non-reference type for generated code (passed in a register) but Rust passes it as %s" % (st, ap))
        if not expect_value and not is_ptr:
            r.bad(st, "AsParam", relfile(i["file"]), i["line"], "%s is a reference type for generated code (passed by pointer) but Rust passes it as %s" % (st, ap))
    return r


def stmt_list(node):
    node = hir.strip(node)
    return (node.get("stmts") or []) + ([node["expr"]] if node.get("expr") is not None else [])


def order_in(stmts, preds):
    """Index of the first statement satisfying each predicate."""
    out = []
    for p in preds:
        idx = None
        for i, s in enumerate(stmts):
            if s is not None and p(s):
                idx = i
                break
        out.append(idx)
    return out


def cond_mentions(s, word, ld=None):
    """The statement is an `if` whose condition tests the struct field `word` (directly, or through a binding of that
    field in a destructuring pattern - whatever the binding is called)."""
    e = s.get("e") if s.get("k") == "semi" else s
    if not isinstance(e, dict) or e.get("k") != "if":
        return False
    c = e["cond"]
    fields = {n.get("n") for n in hir.nodes(c, "field")}
    return word in fields or word in field_roots(ld, c) or (ld is not None and mentions_field(ld, c, word))


def mentions_field(ld, e, word, depth=0):
    """Does the value of `e` come (through let-bindings) from an expression that reads the field `word`?"""
    if depth > 10 or not isinstance(e, (dict, list)):
        return False
    for n in hir.walk(e):
        if n.get("k") == "field" and n.get("n") == word:
            return True
        if n.get("k") == "path" and hir.res_local(n) is not None and ld is not None:
            d = ld.get(hir.res_local(n))
            if d and d[1] is not None and not (d[2] and d[2][0] == "arm") and mentions_field(ld, d[1], word, depth + 1):
                return True
    return False


def rule_a4(F):
    r = RuleResult("C05.A4", "hidden-parameter order: return pointer, context, parameters (and fn pointer, out pointer, parameters for trampolines)", floor=26)
    # declare_function
    db = None
    eb = None
    ib = None
    for p in F.paths():
        if p.endswith("ModuleBuilder::declare_function"):
            db = F.body(p)
        if p.endswith("::entry_block") and "codegen::" in p:
            eb = F.body(p)
        if p.endswith("::instruction") and "codegen::" in p:
            ib = F.body(p)
    from .. import seq as _seq
    S = _seq.Sequences(F, {"return_ptr": "RET", "ctx": "CTX", "context": "CTX", "args": "ARGS", "parameters": "ARGS", "runtime_functions": "FN", "func": "FN"})
    ORDER = ["FN", "RET", "CTX", "ARGS"]

    def judge(seqs, need):
        """every possible sequence lists what it has in the order FN/RET < CTX < ARGS, and the full one occurs"""
        if not seqs:
            return False, "nothing is appended"
        for sq in seqs:
            if not _seq.sorted_by(sq, ORDER):
                return False, "possible order %s" % (list(sq),)
        if not any(all(t in sq for t in need) for sq in seqs):
            return False, "no path appends all of %s (possible: %s)" % (need, sorted(map(list, seqs))[:4])
        return True, ""
    if db is None:
        r.missing("ModuleBuilder::declare_function")
    else:
        a = S.analyse(db)
        sites = [(bi, t) for bi, t in mir.calls(db) if (mir.callee_def(t) or "").endswith("cranelift_module::Module::declare_function") and len(t["args"]) >= 4]
        if not sites:
            r.missing("the Module::declare_function call in ModuleBuilder::declare_function")
        for bi, t in sites:
            ident = a["ident_of_place"](t["args"][3][1])
            seqs = (a["sin"][bi] or {}).get((ident[0], ident[1] + ("params",)))
            ok, why = judge(seqs, ["RET", "CTX", "ARGS"])
            r.inst("declare_function", {"line": t.get("line"), "possible_parameter_sequences": sorted(map(list, seqs or []))[:8], "ok": ok})
            if not ok:
                r.bad(db.path, "parameter order", relfile(db.file), db.line, "the signature must list return pointer, then context, then parameters (%s)" % why)
    if eb is None:
        r.missing("FuncGen::entry_block")
    else:
        st = stmt_list(eb.hir["value"])
        eld = hir.LocalDefs(eb.hir)
        uses_next = lambda s: any(c["m"] == "next" for c in hir.nodes(s, "mcall"))

        def kind_stmt(s, kind):
            """`if <flag> { self.def(variable_map[Var { kind: VarKind::<kind> }], args.next()) }`"""
            e = s.get("e") if s.get("k") == "semi" else s
            if not isinstance(e, dict) or e.get("k") != "if" or not uses_next(s):
                return False
            return any(f[0] == "kind" and hir.last(str(hir.result_desc(f[1]) or "")).split("(")[0] == kind
                       for x in hir.walk_expanded(eld, e["then"]) if x.get("k") == "struct" for f in x["fields"])
        idx = order_in(st, [lambda s: kind_stmt(s, "Return"), lambda s: kind_stmt(s, "Context"),
                            lambda s: any(n.get("k") == "loop" for n in hir.walk(s)) and any(c["m"] == "zip" for c in hir.nodes(s, "mcall"))])
        r.inst("entry_block", {"return_ptr": idx[0], "context": idx[1], "parameters": idx[2]})
        if None in idx or not (idx[0] < idx[1] < idx[2]):
            r.bad(eb.path, "parameter order", relfile(eb.file), eb.line, "block parameters must be consumed as return pointer, context, parameters (statement positions %s)" % idx)
        else:
            # the flags guarding those statements are parameters; the caller must feed them from the signature's fields of the same meaning
            flag_pos = {}
            for which, i in (("return_ptr", idx[0]), ("context", idx[1])):
                e = st[i].get("e") if st[i].get("k") == "semi" else st[i]
                ps = hir.param_roots(eb.hir, eld, e["cond"]) - {0}
                if len(ps) == 1:
                    flag_pos[which] = next(iter(ps))
            callers = 0
            for ob in F.bodies_in(["src/codegen/mod.rs"]):
                if not ob.hir:
                    continue
                old = None
                for c in hir.nodes(ob.hir.get("value") or {}, "mcall"):
                    if c["m"] != "entry_block" or not (hir.call_def(c) or c.get("def") or "").endswith("entry_block"):
                        continue
                    old = old or hir.LocalDefs(ob.hir)
                    callers += 1
                    for which, pos in flag_pos.items():
                        a = c["args"][pos - 1] if pos - 1 < len(c["args"]) else None
                        ok = a is not None and mentions_field(old, a, which)
                        r.inst("entry_block caller flag %s" % which, {"caller": ob.path, "position": pos, "from_field": ok})
                        if not ok:
                            r.bad(ob.path, "entry_block flag " + which, relfile(ob.file), c["line"],
                                  "the flag that makes entry_block consume the %s parameter (position %d) is not the signature's `%s` field" % (which, pos, which))
            if len(flag_pos) != 2 or callers == 0:
                r.missing("entry_block flags (%s) and caller (%d)" % (sorted(flag_pos), callers))
    if ib is None:
        r.missing("FuncGen::instruction")
    else:
        a = S.analyse(ib)
        seen_kinds = set()
        for bi, t in mir.calls(ib):
            d = mir.callee_def(t) or ""
            if hir.last(d) not in ("call", "call_indirect") or "InstBuilder" not in d or len(t["args"]) < 3:
                continue
            got = S.at_call(ib, a, bi, t["args"][-1])
            seqs = got[1] if got else None
            if not seqs:
                continue
            tags = {x for sq in seqs for x in sq}
            if "FN" in tags:
                seen_kinds.add("CallRuntime")
                ok, why = judge(seqs, ["FN", "ARGS"])
                ok = ok and all((not sq) or sq[0] == "FN" for sq in seqs)
                r.inst("Instruction::CallRuntime", {"line": t.get("line"), "possible_argument_sequences": sorted(map(list, seqs))[:8], "ok": ok})
                if not ok:
                    r.bad(ib.path, "CallRuntime argument order", relfile(ib.file), t.get("line"), "the trampoline takes the closure pointer first, then the (out pointer and) arguments (%s)" % (why or "the closure pointer is not first"))
            elif tags & {"RET", "CTX"}:
                seen_kinds.add("Call")
                ok, why = judge(seqs, ["RET", "CTX", "ARGS"])
                r.inst("Instruction::Call", {"line": t.get("line"), "possible_argument_sequences": sorted(map(list, seqs))[:8], "ok": ok})
                if not ok:
                    r.bad(ib.path, "Call argument order", relfile(ib.file), t.get("line"), "call arguments must be assembled as return pointer, context, arguments (%s)" % why)
        for k_ in ("Call", "CallRuntime"):
            if k_ not in seen_kinds:
                r.missing("the cranelift call emitted for Instruction::%s (argument vector not found)" % k_)
    # fn pointer types of RotoFunc
    n = 0
    for i in F.impls():
        if i.get("trait") != "codegen::check::RotoFunc":
            continue
        at = {x["name"]: x.get("ty") for x in i["items"] if x["dk"] == "AssocTy"}
        w = at.get("RotoWithReturnPointer") or ""
        wo = at.get("RotoWithoutReturnPointer") or ""
        n += 1
        r.inst("RotoFunc types " + i["self_ty"], {"with": w[:90], "without": wo[:90]})
        if not re.match(r'^extern "C" fn\(\*mut <R as value::Value>::Transformed, \*mut \(\)', w):
            r.bad(i["self_ty"], "RotoWithReturnPointer", relfile(i["file"]), i["line"], "with a return pointer the ABI is (ret ptr, ctx, args..); the Rust fn-pointer type is %s" % w)
        if not re.match(r'^extern "C" fn\(\*mut \(\)', wo) or not wo.endswith("<R as value::Value>::Transformed"):
            r.bad(i["self_ty"], "RotoWithoutReturnPointer", relfile(i["file"]), i["line"], "without a return pointer the ABI is (ctx, args..) -> R; the Rust fn-pointer type is %s" % wo)
        # the k-th explicit parameter is A_k::AsParam
        m = re.match(r"^fn\((.*)\)", i["self_ty"])
        params = [p.strip() for p in m.group(1).split(",") if p.strip()] if m else []
        want = "".join(", <%s as value::Value>::AsParam" % p for p in params)
        if want and want not in w.replace("*mut <R as value::Value>::Transformed, *mut ()", ""):
            r.bad(i["self_ty"], "parameter types", relfile(i["file"]), i["line"], "explicit parameters of %s are not passed as A_k::AsParam in declaration order: %s" % (i["self_ty"], w))
    if n < 8:
        r.missing("8 RotoFunc impls (found %d)" % n)
    # trampolines: RustWrapper = extern "C" fn(*const Self, *mut R::Transformed, A::AsParam..)
    m = 0
    for i in F.impls():
        if i.get("trait") != "runtime::func::RegisterableFn":
            continue
        at = {x["name"]: x.get("ty") for x in i["items"] if x["dk"] == "AssocTy"}
        w = at.get("RustWrapper") or ""
        m += 1
        r.inst("RustWrapper #%d" % m)
        if not re.match(r'^extern "C" fn\(\*const F, \*mut <R as value::Value>::Transformed', w):
            r.bad("RegisterableFn", "RustWrapper %s" % i["trait_ref"][:50], relfile(i["file"]), i["line"], "the trampoline ABI is (closure ptr, out ptr, args..); the Rust type is %s" % w)
    if m < 16:
        r.missing("16 RegisterableFn impls (found %d)" % m)
    return r


def rule_a5(F):
    r = RuleResult("C05.A5", "enum layout rule: tag-seeded variant layouts combined by Layout::union = (max size, max align), rounded up - the rule rustc applies to the repr(u8) mirrors", floor=4)
    lb = F.body("mir::ty::Pool::layout_of")
    if lb is None:
        r.missing("mir::ty::Pool::layout_of")
        return r
    arm = None
    for m in hir.find_match_on(lb.hir["value"], "Ty::", min_arms=4):
        for a in m["arms"]:
            if hir.pat_desc(a["pat"]).startswith("Ty::Enum"):
                arm = a
    if arm is None:
        r.missing("Ty::Enum arm of Pool::layout_of")
        return r
    # closures inside the arm are separate bodies: look at calls in the arm and in closures defined in it
    calls = [c["m"] for c in hir.nodes(arm["body"], "mcall")]
    for n in hir.nodes(arm["body"], "closure"):
        calls += [c["m"] for c in hir.nodes(n.get("body") or {}, "mcall")]
    r.inst("enum arm combines variants", {"methods": sorted(set(calls))})
    if "union" not in calls:
        r.bad(lb.path, "variants not combined by union", relfile(lb.file), arm["line"],
              "the layout of an enum is no longer the union (max size AND max alignment) of its variants: an enum whose largest variant is not its most aligned one gets a smaller alignment than rustc gives the repr(u8) mirror, so nested Option/Result values are read at the wrong offset across the boundary")
    if any(x in calls for x in ("max_by_key", "max_by", "min_by_key", "last", "first")):
        r.bad(lb.path, "single variant chosen", relfile(lb.file), arm["line"], "the enum layout is taken from a single variant (%s)" % [x for x in calls if x in ("max_by_key", "max_by", "min_by_key", "last", "first")])
    ub = F.body("runtime::layout::Layout::union")
    if ub is None:
        r.missing("runtime::layout::Layout::union")
    else:
        maxes = []
        for c in hir.nodes(ub.hir["value"], "mcall"):
            if c["m"] == "max":
                f1 = hir.peel_refs(c["recv"])
                f2 = hir.peel_refs(c["args"][0])
                if f1.get("k") == "field" and f2.get("k") == "field":
                    maxes.append((f1["n"], f2["n"]))
        rounds = [c for c in hir.nodes(ub.hir["value"], "mcall") if c["m"] == "next_multiple_of"]
        r.inst("Layout::union", {"max_of": maxes, "rounds_size": len(rounds)})
        if ("size", "size") not in maxes or ("align", "align") not in maxes:
            r.bad(ub.path, "max", relfile(ub.file), ub.line, "Layout::union must take the maximum of both sizes and of both alignments (found %s)" % maxes)
        if not rounds:
            r.bad(ub.path, "round", relfile(ub.file), ub.line, "Layout::union must round the size up to the alignment")
    ab = F.body("runtime::layout::LayoutBuilder::add")
    fb = F.body("runtime::layout::LayoutBuilder::finish")
    if ab is None or fb is None:
        r.missing("runtime::layout::LayoutBuilder::{add, finish}")
    else:
        ms = [c["m"] for c in hir.nodes(ab.hir["value"], "mcall")]
        adds = [n for n in hir.nodes(ab.hir["value"], "bin") if n.get("op") == "+"]
        r.inst("LayoutBuilder::add", {"methods": sorted(set(ms)), "sums": len(adds)})
        if "next_multiple_of" not in ms or "max" not in ms or not adds:
            r.bad(ab.path, "C layout", relfile(ab.file), ab.line, "LayoutBuilder::add must align the offset to the field (next_multiple_of), raise the alignment (max) and advance by the field size")
        fm = [c["m"] for c in hir.nodes(fb.hir["value"], "mcall")]
        r.inst("LayoutBuilder::finish", {"methods": sorted(set(fm))})
        if "next_multiple_of" not in fm:
            r.bad(fb.path, "tail padding", relfile(fb.file), fb.line, "LayoutBuilder::finish must round the size up to the alignment (tail padding)")
    return r


def rule_a6(F):
    """Type-erased storage holds the boundary form: wherever the typed API (List<T>, Constant::new) erases or restores the type of a
    value that generated code also reads or writes, the concrete side of the cast is <T as Value>::Transformed, never T itself
    (for Option/Result/Verdict and everything that contains them the two differ)."""
    r = RuleResult("C05.A6", "type erasure only on the boundary representation: casts to/from `()` and raw slices in List<T> and the value stored by Constant::new are T::Transformed", floor=8)
    for p in sorted(F.paths()):
        if not ("value::list::boundary::" in p or p.endswith("runtime::items::Constant::new")):
            continue
        b = F.body(p)
        if b is None or not b.mir or "::tests::" in p:
            continue
        short = p.split("value::list::boundary::")[-1] if "boundary::" in p else "Constant::new"
        n = 0
        for bi, t in mir.calls(b):
            d = mir.callee_def(t)
            g = [x for x in (t["f"].get("gargs") or []) if not x.startswith("'")]
            what = None
            if d.endswith("NonNull::<T>::cast") and len(g) == 2 and "()" in g:
                what = ("cast", g[0] if g[1] == "()" else g[1])
            elif d.endswith("slice::from_raw_parts") and g:
                what = ("from_raw_parts", g[0])
            elif d.endswith("ConstantValue::new") and g:
                what = ("ConstantValue::new", g[0])
            elif g and hir.last(d) in ("new", "size_of", "align_of", "needs_drop", "for_value") and (d.startswith("std::alloc::Layout::") or d.startswith("std::mem::")) \
                    and (g[0] == "T" or "Transformed" in g[0]):
                # the element layout / drop need the list's vtable is built from (what generated code and the erased side use as stride)
                what = (hir.last(d.rsplit("::", 1)[0]) + "::" + hir.last(d), g[0])
            if what is None:
                continue
            n += 1
            ok = "Transformed" in what[1]
            r.inst("%s %s #%d" % (short, what[0], n), {"fn": p, "line": t["line"], "operation": what[0], "concrete_type": what[1]})
            if not ok:
                r.bad(p, "%s of %s" % what, relfile(b.file), t["line"],
                      "%s erases / restores the type `%s`: generated code and the list's vtable work on <T as Value>::Transformed, so for T = Option<_>, Result<_, _>, Verdict<_, _> (and anything containing them) a value in Rust's own layout is compared, copied or read as if it had Roto's layout" % (what[0], what[1]))
        # the element functions stored in the vtable (clone / drop / eq) are instantiated for the boundary form as well
        for blk in b.blocks:
            for st in blk["stmts"]:
                rv = st.get("rv") or {}
                o = rv.get("o")
                c = o[1] if isinstance(o, list) and len(o) == 2 and o[0] == "const" and isinstance(o[1], dict) else None
                if st["k"] == "assign" and rv.get("k") == "cast" and c and str(c.get("fn") or "").startswith("runtime::extern_") and c.get("gargs"):
                    n += 1
                    ga = c["gargs"][0]
                    r.inst("%s %s #%d" % (short, hir.last(c["fn"]), n), {"fn": p, "line": st.get("line"), "operation": c["fn"], "concrete_type": ga})
                    if "Transformed" not in ga:
                        r.bad(p, "%s of %s" % (hir.last(c["fn"]), ga), relfile(b.file), st.get("line") or b.line,
                              "the list's %s works on `%s`: the elements are stored as <T as Value>::Transformed" % (hir.last(c["fn"]), ga))
    return r


def rule_a7(F):
    """A parameter may only disappear from a generated signature if the Rust side passes nothing for it. Registered types
    (Val<T>) are handed over as a pointer whatever their size (AsParam of the Value impl), so the lowering must not elide them:
    lower_type's `None` (= no IR value, dropped from signatures and argument lists) must not be decided before the kind of the type
    has been looked at."""
    r = RuleResult("C05.A7", "types the Rust side passes by pointer are never elided from generated signatures (zero-size elision only after the kind of the type is known)", floor=2)
    vi = [i for i in F.impls() if i.get("trait") == "value::Value" and i["self_ty"].startswith("value::val::Val<")]
    if not vi:
        r.missing("impl Value for Val<T>")
        return r
    asp = [x.get("ty") for x in vi[0]["items"] if x["dk"] == "AssocTy" and x["name"] == "AsParam"]
    by_ptr = bool(asp) and (asp[0] or "").startswith("*mut")
    r.inst("Val<T>::AsParam", {"as_param": asp[0] if asp else None, "passed_by_pointer_regardless_of_size": by_ptr})
    ps = [p for p in F.paths() if p.endswith("::lower_type") and "lir::lower" in p]
    if not ps:
        r.missing("lir::lower lower_type")
        return r
    b = F.body(ps[0])
    defs = mir.Defs(b)
    dom = mir.dominators(b)
    kind_switches = []
    for bi, blk in enumerate(b.blocks):
        t = blk["term"]
        if t["k"] == "switch" and mir.is_place_op(t["o"]):
            for d in defs.whole_defs(t["o"][1][0]):
                if d[2] == "assign" and d[3]["rv"]["k"] == "discr" and (d[3]["rv"].get("ty") or "").endswith("mir::ty::Ty"):
                    kind_switches.append(bi)
    n = 0
    for bi, st in mir.agg_sites(b, "std::option::Option"):
        if st["rv"].get("variant") != "None" or st["p"] != [0]:
            continue
        n += 1
        after_kind = any(k in dom[bi] for k in kind_switches)
        r.inst("lower_type None #%d" % n, {"line": st["line"], "decided_after_kind_test": after_kind})
        if by_ptr and not after_kind:
            r.bad(b.path, "zero-size elision before kind test", relfile(b.file), st["line"],
                  "lower_type answers `None` (no IR value: the parameter is dropped from signatures and argument lists) for every zero-sized type before looking at its kind, "
                  "including registered types, which Rust passes as a pointer whatever their size: with a zero-sized Val<T> in a non-last position the following arguments are shifted")
    if n == 0:
        r.missing("None result in lower_type")
    return r


def rule_a8(F):
    """A value of Rust type Result<T, E> / Verdict<A, R> / Option<T> that a registered function or constant hands to a script is read
    there with the Roto type derived from the Rust type description: the same constructor with the components in the same order
    (otherwise the script reads the Ok payload with E's type and offset).  Shared with C18.I8."""
    from . import c18
    r = c18.rule_i8(F)
    r.rule = "C05.A8"
    r.desc = "the Roto type under which a script reads a registered Rust value has the constructor and component order of the Rust type"
    for v in r.violations:
        v.rule = "C05.A8"
    return r


def rule_a9(F):
    """Reading a component: a `mir::Place { var, root_ty, projection }` with a non-empty projection names a component of `var` at
    the offset that the layout of `root_ty` gives it - so `root_ty` must be the type the variable was created with.  Where the MIR
    lowerer makes the variable with `assign_to_var(value, T)`, the root type of every projected place on it is that same T (not,
    say, the function's return type: `x?` inside a function returning `bool?` would read the payload of a `u64?` at the wrong offset)."""
    r = RuleResult("C05.A9", "projected places in the MIR lowerer carry the type their variable was created with (payload offsets of `?`, field access, match bindings)", floor=3)
    for b in F.bodies_in(["src/mir/lower.rs", "src/mir/lower/match_expr.rs"]):
        if not b.mir or "Lowerer" not in b.path:
            continue
        defs = None
        for bi, blk in enumerate(b.blocks):
            for st in blk["stmts"]:
                if st["k"] != "assign" or st["rv"]["k"] != "agg" or st["rv"].get("adt") != "mir::Place":
                    continue
                fs = st["rv"].get("fields") or []
                if not {"var", "root_ty", "projection"} <= set(fs):
                    continue
                ops = dict(zip(fs, st["rv"]["ops"]))
                defs = defs or mir.Defs(b)
                # only projected places (projection not Vec::new())
                po = ops["projection"]
                if mir.is_place_op(po):
                    pk = mir.origin_key(b, defs, po[1])
                    if pk.endswith("Vec::<T>::new"):
                        continue
                if not mir.is_place_op(ops["var"]) or not mir.is_place_op(ops["root_ty"]):
                    continue
                # the variable: result of assign_to_var(value, T)?
                made = [x for x in mir.back_calls(b, defs, ops["var"][1][0]) if hir.last(mir.callee(b.blocks[x]["term"]) or "") == "assign_to_var"]
                if len(made) != 1:
                    continue
                mt = b.blocks[made[0]]["term"]
                t_made = mir.origin_key(b, defs, mt["args"][2][1]) if len(mt["args"]) > 2 and mir.is_place_op(mt["args"][2]) else None
                t_root = mir.origin_key(b, defs, ops["root_ty"][1])
                same = t_made is not None and (t_made == t_root)
                r.inst("%s Place line %s" % (hir.last(b.path), st.get("line")), {"fn": b.path, "line": st.get("line"), "variable_created_with": t_made, "root_ty": t_root})
                if not same:
                    r.bad(b.path, "projected place with a foreign root type", relfile(b.file), st.get("line"),
                          "a component of the variable made by assign_to_var(.., %s) is addressed with root type %s: the component's offset is computed from the layout of another type "
                          "(`x?` on a `u64?` inside a function returning `bool?` reads the payload at the bool's offset)" % (t_made, t_root))
    return r


NARROW_UNSIGNED = ("Bool", "U8", "U16")
NARROW_SIGNED = ("I8", "I16")


def _abi_flow(F, b, variant_idx, irtype, tables, depth=0):
    """Forward may-dataflow over one body for ONE variant of lir::IrType: local -> set of (extension, type class) of the AbiParam it
    may hold.  extension: none | uext | sext; type class: var (the cranelift type of an IrType, i.e. narrow for the narrow variants) |
    narrow (a constant I8 / I16) | wide.  A switch on the discriminant of an IrType place only follows the edge of the variant."""
    nb = len(b.blocks)
    defs = mir.Defs(b)
    discr_locals = set()
    discr_ext = {}            # local holding the discriminant of an ArgumentExtension value -> the local it was read from
    ext_vidx = {}             # variant name (lower case) -> variant index, as seen in the aggregates of this body
    for blk in b.blocks:
        for st in blk["stmts"]:
            if st["k"] == "assign" and st["rv"]["k"] == "discr" and st["rv"].get("ty", "").endswith(irtype):
                discr_locals.add(st["p"][0])
            if st["k"] == "assign" and st["rv"]["k"] == "discr" and st["rv"].get("ty", "").endswith("ArgumentExtension") and len(st["rv"]["p"]) == 1:
                discr_ext[st["p"][0]] = st["rv"]["p"][0]
            if st["k"] == "assign" and st["rv"]["k"] == "agg" and str(st["rv"].get("adt", "")).endswith("ArgumentExtension"):
                ext_vidx[str(st["rv"].get("variant", "")).lower()] = st["rv"].get("vidx")

    def tyclass(op):
        if not mir.is_place_op(op):
            c = mir.op_const(op)
            txt = str((c or {}).get("text", ""))
            return "narrow" if re.search(r"::I(8|16)$", txt) else "wide"
        root, _ = mir.origin(b, defs, op[1])
        if root.startswith("call:"):
            c = root[5:]
            return "var" if F.body(c) is not None else "wide"
        if root.startswith("const:"):
            return "narrow" if re.search(r"::I(8|16)$", root) else "wide"
        return "var" if root.startswith("arg") else "wide"

    ins = [None] * nb
    ins[0] = {}
    work = [0]
    at_call = {}
    while work:
        bi = work.pop()
        env = dict(ins[bi])
        blk = b.blocks[bi]
        def ext_of(op):
            """Extension values an operand of type ArgumentExtension may hold."""
            if mir.is_place_op(op):
                return {e for e, tc in env.get(op[1][0], ()) if tc == "E"} if len(op[1]) == 1 else set()
            c = mir.op_const(op) or {}
            m = re.search(r"ArgumentExtension::(\w+)", str(c.get("text", "")))
            return {m.group(1).lower()} if m else set()

        for st in blk["stmts"]:
            if st["k"] != "assign":
                continue
            rv = st["rv"]
            if len(st["p"]) == 2 and isinstance(st["p"][1], list) and st["p"][1][0] == "f" and st["p"][1][-1] == "extension" and st["p"][0] in env:
                # param.extension = <ext>
                es = {rv.get("variant", "").lower()} if rv["k"] == "agg" and str(rv.get("adt", "")).endswith("ArgumentExtension") else (ext_of(rv["o"]) if rv["k"] == "use" else set())
                env[st["p"][0]] = frozenset({(e, tc) for e in (es or {"?"}) for _, tc in env[st["p"][0]] if tc != "E"})
                continue
            if len(st["p"]) != 1:
                continue
            src = rv.get("o") if rv["k"] == "use" else None
            if src is not None and mir.is_place_op(src) and len(src[1]) == 1 and src[1][0] in env:
                env[st["p"][0]] = env[src[1][0]]
            elif rv["k"] == "agg" and str(rv.get("adt", "")).endswith("ArgumentExtension"):
                env[st["p"][0]] = frozenset({(rv.get("variant", "").lower(), "E")})
            elif rv["k"] == "agg" and str(rv.get("adt", "")).endswith("AbiParam") and "extension" in (rv.get("fields") or []):
                fs = rv["fields"]
                es = ext_of(rv["ops"][fs.index("extension")]) or {"?"}
                tc = tyclass(rv["ops"][fs.index("value_type")]) if "value_type" in fs else "var"
                env[st["p"][0]] = frozenset({(e, tc) for e in es})
            else:
                env.pop(st["p"][0], None)
        t = blk["term"]
        succs = []
        if t["k"] == "call":
            at_call[bi] = dict(env)
            c = mir.callee(t) or ""
            d = t.get("dest")
            if d and len(d) == 1:
                a0 = t["args"][0] if t.get("args") else None
                prev = env.get(a0[1][0]) if (a0 is not None and mir.is_place_op(a0) and len(a0[1]) == 1) else None
                if c.endswith("AbiParam::new"):
                    env[d[0]] = frozenset({("none", tyclass(a0))})
                elif c.endswith("AbiParam::uext") or c.endswith("AbiParam::sext"):
                    e = c[-4:]
                    env[d[0]] = frozenset({(e, tc) for _, tc in (prev or {("none", "var")})})
                elif F.body(c) is not None and depth < 3 and any(irtype in (x.get("ty") or "") for x in F.body(c).mir["locals"][1:1 + F.body(c).mir["argc"]]):
                    tb = tables.get(c)
                    if tb is None:
                        tb = tables[c] = {}
                    if variant_idx not in tb:
                        hb = F.body(c)
                        tb[variant_idx] = None
                        hin, _ = _abi_flow(F, hb, variant_idx, irtype, tables, depth + 1)
                        out = set()
                        for hbi, hblk in enumerate(hb.blocks):
                            if hblk["term"]["k"] == "return" and hin[hbi] is not None:
                                henv = dict(hin[hbi])
                                for st in hblk["stmts"]:
                                    if st["k"] == "assign" and st["p"] == [0] and st["rv"]["k"] == "use" and mir.is_place_op(st["rv"]["o"]):
                                        henv[0] = henv.get(st["rv"]["o"][1][0])
                                if henv.get(0):
                                    out |= set(henv[0])
                        tb[variant_idx] = frozenset(out) if out else None
                    if tb[variant_idx]:
                        env[d[0]] = tb[variant_idx]
                    else:
                        env.pop(d[0], None)
                else:
                    env.pop(d[0], None)
            if t.get("t") is not None:
                succs.append(t["t"])
        elif t["k"] == "switch":
            o = t["o"]
            if mir.is_place_op(o) and o[1][0] in discr_locals:
                tg = [x for v, x in t["targets"] if v == variant_idx]
                succs = tg if tg else [t["otherwise"]]
            elif mir.is_place_op(o) and o[1][0] in discr_ext and env.get(discr_ext[o[1][0]]) and all(tc == "E" and e in ext_vidx for e, tc in env[discr_ext[o[1][0]]]):
                # a second decision on the extension that was chosen for this variant: only the edges of the possible values
                want_ = {ext_vidx[e] for e, _ in env[discr_ext[o[1][0]]]}
                succs = []
                for v_ in want_:
                    tg = [x for v, x in t["targets"] if v == v_]
                    succs += tg if tg else [t["otherwise"]]
            else:
                succs = [x for _, x in t["targets"]] + ([t["otherwise"]] if t.get("otherwise") is not None else [])
        else:
            succs = list(mir.succs(blk))
        for sb in succs:
            if sb is None:
                continue
            old = ins[sb]
            if old is None:
                ins[sb] = dict(env)
                work.append(sb)
            else:
                ch = False
                for k, v in env.items():
                    nv = frozenset(old.get(k, frozenset())) | v
                    if nv != old.get(k):
                        old[k] = nv
                        ch = True
                if ch:
                    work.append(sb)
    return ins, at_call


def rule_a10(F):
    """A small integer handed BY VALUE to code that rustc compiled arrives as sent only if the caller extends it: on x86-64 (and
    other C ABIs) the callee may assume that an argument narrower than 32 bits was zero- or sign-extended by its caller (LLVM
    `zeroext` / `signext`), and optimised builds of the host do.  Cranelift leaves the upper bits of the register undefined unless the
    parameter of the *declared signature* says how to extend.  So: every parameter pushed onto a signature that is declared with
    Linkage::Import (the trampolines of registered functions) is, for each narrow variant of lir::IrType, an AbiParam with the
    extension of that variant's signedness - Bool/U8/U16: uext, I8/I16: sext.  Evaluated per variant by a forward dataflow over the
    declaring function and the helpers that build the parameter (a `match` on the IrType follows only that variant's edge)."""
    r = RuleResult("C05.A10", "by-value parameters of signatures declared for host (Rust-compiled) functions carry the argument extension of their IR type: bool/u8/u16 uext, i8/i16 sext", floor=1)
    adt = [a for a in F.adts() if a["path"].endswith("lir::value::IrType")]
    if not adt:
        r.missing("lir::value::IrType")
        return r
    vnames = [v["name"] for v in adt[0]["variants"]]
    miss = [v for v in NARROW_UNSIGNED + NARROW_SIGNED if v not in vnames]
    if miss:
        r.missing("IrType variants %s" % miss)
        return r
    nsites = 0
    for b in F.all_bodies():
        if not b.mir or not b.path.startswith("codegen::"):
            continue
        decls = [(bi, t) for bi, t in mir.calls(b) if (mir.callee(t) or "").endswith("Module>::declare_function") or (t["f"].get("def") or "").endswith("cranelift_module::Module::declare_function")]
        if not decls:
            continue
        defs = mir.Defs(b)

        def root_local(local, seen=()):
            ds = defs.whole_defs(local)
            if len(ds) != 1 or local in seen or ds[0][2] != "assign":
                return local
            rv = ds[0][3]["rv"]
            if rv["k"] in ("ref", "rawptr"):
                return root_local(rv["p"][0], seen + (local,))
            if rv["k"] == "use" and mir.is_place_op(rv["o"]):
                return root_local(rv["o"][1][0], seen + (local,))
            return local

        import_sigs = set()
        for bi, t in decls:
            link = None
            sigs = []
            for a in t["args"]:
                if not mir.is_place_op(a):
                    continue
                for d in defs.whole_defs(a[1][0]):
                    if d[2] == "assign" and d[3]["rv"]["k"] == "agg" and str(d[3]["rv"].get("adt", "")).endswith("Linkage"):
                        link = d[3]["rv"].get("variant")
                    elif d[2] == "assign" and d[3]["rv"]["k"] == "ref":
                        sigs.append(root_local(a[1][0]))
            if link == "Import":
                import_sigs |= set(sigs)
        if not import_sigs:
            continue
        def pushes_on(bb, sig_roots, depth=0):
            """(body, block, call) of every push onto `.params` of one of the signatures - in this body, or in the crate helper that
            built and returned the signature"""
            out = []
            bdefs = mir.Defs(bb)

            def rl(local, seen=()):
                ds = bdefs.whole_defs(local)
                if len(ds) != 1 or local in seen or ds[0][2] != "assign":
                    return local
                rv = ds[0][3]["rv"]
                if rv["k"] in ("ref", "rawptr"):
                    return rl(rv["p"][0], seen + (local,))
                if rv["k"] == "use" and mir.is_place_op(rv["o"]):
                    return rl(rv["o"][1][0], seen + (local,))
                return local
            for bi, t in mir.calls(bb):
                if not (mir.callee(t) or "").endswith("::push") or len(t["args"]) != 2 or not mir.is_place_op(t["args"][0]):
                    continue
                ds = bdefs.whole_defs(t["args"][0][1][0])
                if len(ds) != 1 or ds[0][2] != "assign" or ds[0][3]["rv"]["k"] != "ref":
                    continue
                pl = ds[0][3]["rv"]["p"]
                if rl(pl[0]) in sig_roots and any(isinstance(x, list) and x[0] == "f" and x[-1] == "params" for x in pl[1:]):
                    out.append((bb, bi, t))
            if depth < 2:
                for sr in sig_roots:
                    for d in bdefs.whole_defs(sr):
                        if d[2] == "call":
                            hb = F.body(mir.callee(d[3]) or "")
                            if hb is not None and hb.mir and hb.path != bb.path:
                                hdefs = mir.Defs(hb)

                                def hrl(local, seen=()):
                                    ds = hdefs.whole_defs(local)
                                    if len(ds) == 1 and ds[0][2] == "assign" and local not in seen and ds[0][3]["rv"]["k"] == "use" and mir.is_place_op(ds[0][3]["rv"]["o"]):
                                        return hrl(ds[0][3]["rv"]["o"][1][0], seen + (local,))
                                    return local
                                out += pushes_on(hb, {hrl(0)}, depth + 1)
            return out
        tables = {}
        for pb, bi, t in pushes_on(b, import_sigs):
            nsites += 1
            v = t["args"][1]
            wrong = {}
            seen_kinds = {}
            for name in NARROW_UNSIGNED + NARROW_SIGNED:
                idx = vnames.index(name)
                _, at_call = _abi_flow(F, pb, idx, "IrType", tables)
                kinds = at_call.get(bi, {}).get(v[1][0]) if mir.is_place_op(v) and len(v[1]) == 1 else None
                want = "uext" if name in NARROW_UNSIGNED else "sext"
                seen_kinds[name] = sorted("%s/%s" % k for k in (kinds or []))
                if kinds is None:
                    wrong[name] = "not an AbiParam the rule can follow"
                    continue
                bad = [e for e, tc in kinds if (tc == "var" and e != want) or (tc == "narrow" and e == "none")]
                if bad:
                    wrong[name] = "%s (expected %s)" % (", ".join(sorted(set(bad))), want)
            r.inst("parameter pushed onto an imported signature", {"fn": pb.path, "line": t["line"], "extension_by_variant": seen_kinds})
            if wrong:
                r.bad(pb.path, "host parameter without the extension of its type", relfile(pb.file), t["line"],
                      "the signature declared for a function compiled by Rust (Linkage::Import) gets a parameter whose extension is wrong for %s: the upper bits of the argument register are "
                      "undefined and an optimised host reads them (e.g. a registered `fn(x: u8) -> u32 { x as u32 }` called with `a + b` = 300 returns 300, not 44)"
                      % "; ".join("%s: %s" % kv for kv in sorted(wrong.items())))
    return r


def rule_a11(F):
    """C02.L1 under C05's id: the layout a script computes for Option / Result / Verdict (size, payload offsets) is the union of the
    per-variant `(u8 tag, fields..)` walks - which is what rustc gives the #[repr(u8)] mirror enums.  A different construction
    (tag followed by a union of payloads) changes the SIZE for some payload mixtures and with it the stride of script-built lists."""
    from . import c02
    r = c02.rule_l1(F)
    r.rule = "C05.A11"
    r.desc = "enum layouts are the union of per-variant (tag, fields..) walks, as rustc lays out the #[repr(u8)] mirrors (sizes and strides agree across the boundary)"
    for v in r.violations:
        v.rule = "C05.A11"
    return r


def rule_a12(F):
    """Matching Option/Result/Verdict inside the script agrees with Rust's view of the same value: a variant that no arm names
    reaches the `_` arm (shared with C02.L10: the default case of the match switch is decided on distinct variants)."""
    from . import c02
    r = c02.rule_l10(F)
    r.rule = "C05.A12"
    r.desc = "a value of a variant no arm names reaches the `_` arm (match default decided on the number of distinct variants named)"
    for v in r.violations:
        v.rule = "C05.A12"
    return r


def rule_a13(F):
    """Values cross the boundary as independent copies: the generated clone functions copy a value bit by bit only where that IS a
    copy - the decision is made by the recursive predicate `needs_clone` (does any component, at any depth, have a clone function),
    or the value is a leaf (the arm for registered types without one).  A shortcut that looks one level deep (`fields.all(|f|
    get_runtime_clone(f).is_none())`) bit-copies `Result[Option[String], u32]`: two owners of one string buffer, and the copy that
    crosses the boundary dangles when the other one is dropped."""
    r = RuleResult("C05.A13", "generated clone bodies: every bitwise copy is decided by the recursive needs_clone predicate or made for a leaf type", floor=2)
    bodies = [b for b in F.bodies_in(["src/lir/lower/clones.rs"]) if b.mir and "::tests::" not in b.path]
    n = 0
    for b in bodies:
        sites = [bi for bi, t in mir.calls(b) if hir.last(mir.callee(t) or "") == "emit_memcpy"]
        sites += [bi for bi, blk in enumerate(b.blocks) for st in blk["stmts"] if st["k"] == "assign" and st["rv"]["k"] == "agg"
                  and hir.last(st["rv"].get("adt") or "") == "Instruction" and st["rv"].get("variant") == "Copy"]
        if not sites:
            continue
        defs = mir.Defs(b)
        dom = mir.dominators(b)
        nc = {bi for bi, t in mir.calls(b) if hir.last(mir.callee(t) or "") == "needs_clone"}
        for sb in sorted(set(sites)):
            n += 1
            how = None
            for di in dom[sb]:
                t = b.blocks[di]["term"]
                if t["k"] != "switch" or not mir.is_place_op(t["o"]):
                    continue
                l = t["o"][1][0]
                if mir.back_calls(b, defs, l) & nc:
                    how = "needs_clone"
                    break
                for d in defs.whole_defs(l):
                    if d[2] == "assign" and d[3]["rv"]["k"] == "discr" and hir.last(str(d[3]["rv"].get("ty") or "").replace("&", "").strip()) == "Ty":
                        how = how or "leaf arm of the match on the kind of the type"
            r.inst("%s memcpy #%d" % (hir.last(b.path), n), {"fn": b.path, "line": b.blocks[sb]["term"].get("line"), "decided_by": how})
            if how is None:
                r.bad(b.path, "bitwise copy not decided by needs_clone", relfile(b.file), b.blocks[sb]["term"].get("line") or b.line,
                      "%s emits a memcpy of (part of) a value that is neither behind the recursive predicate needs_clone nor the leaf case of the match on the type's kind: a component "
                      "that owns something one level further down (`Result[Option[String], u32]`) is duplicated without its clone function - two owners, one release too many" % hir.last(b.path))
    if n == 0:
        r.missing("emit_memcpy sites in src/lir/lower/clones.rs")
    return r


def rules(ctx):
    F = ctx["F"]
    return [rule_a1(F), rule_a2(F), rule_a3(F), rule_a4(F), rule_a5(F), rule_a6(F), rule_a7(F), rule_a8(F), rule_a9(F), rule_a10(F), rule_a11(F), rule_a12(F), rule_a13(F)]
