"""C04 - a compiled function is only obtainable under its true Rust signature."""
import os
import re

from .. import mir, hir
from ..facts import relfile
from ..report import RuleResult, REPO

EXPLANATION = (
    "The signature gate is ordinary Rust code with one arm per type constructor, so its logic is decided structurally: "
    "G1 in Module::get_function the block that builds TypedFunc is reachable only through the Ok/Some edges of the name lookup, "
    "the signature test, F::check_args(..)? and check_roto_type_reflect::<F::Return>(..)? (must-pass-through on the MIR CFG); "
    "G2 TypedFunc is constructed nowhere else (all MIR aggregate sites of the crate); G3 each of the RotoFunc impls destructures the "
    "parameter slice with a rest-less pattern of exactly N bindings and checks binding k against type parameter k through `?`; "
    "G4 each constructor arm of check_roto_type requires the global name of the same constructor, the constructor's arity, pairs Rust "
    "component j with Roto argument j and propagates every recursive result; G5 the leaf table TypeId->name agrees with the types "
    "registered in runtime::basic and with the documented mapping; G6 each Value::resolve stores the description of its own "
    "constructor with components in declaration order; G7 the leaf fallback refuses instead of panicking; G9 filtermap sides forced to unit."
)
EXPLANATION += (  # round-3 supplement
    ' G3 also understands the arity gate written as an explicit length comparison with indexed checks (constant propagation), G4 the constructor test factored into a helper (let-else or match form) whose body is then checked for the name and GLOBAL-scope comparison.'
)
EXPLANATION += (
    ' G11 the generic entry check_roto_type_reflect::<T> returns on every path the verdict of check_roto_type for the TypeId of T (no acceptance by name).'
)
ASSUMPTIONS = [
    "TypeId uniqueness and the TypeRegistry being keyed by TypeId (trusted)",
    "decides the gate's logic; ABI correctness of a call through a correctly typed handle is C05",
]

GET_FUNCTION = "codegen::Module::<Ctx>::get_function"
TYPED_FUNC = "codegen::TypedFunc"
CHECK_ROTO_TYPE = "codegen::check::check_roto_type"


def _closure_reads(F, b, bb):
    """Field names read by the closures of `b` that are handed to the call ending block `bb` (an Option/Result combinator whose
    closure makes the test: the gate on the combinator's result is then a gate on what the closure looked at)."""
    t = b.blocks[bb]["term"]
    if t.get("k") != "call":
        return []
    out = []
    cl = {}
    for blk in b.blocks:
        for st in blk["stmts"]:
            if st["k"] == "assign" and st["rv"]["k"] == "agg" and st["rv"].get("ak") == "closure" and len(st["p"]) == 1:
                cl[st["p"][0]] = st["rv"].get("def")
    for a in t.get("args") or []:
        l = a[1][0] if mir.is_place_op(a) else None
        if l not in cl or not cl[l]:
            continue
        seen, todo = set(), [cl[l]]
        while todo:
            cp = todo.pop()
            if cp in seen:
                continue
            seen.add(cp)
            cb = F.body(cp)
            if cb is None or not cb.mir:
                continue
            for blk in cb.blocks:
                for n in _walk_json(blk):
                    if isinstance(n, list) and len(n) == 3 and n[0] == "f" and isinstance(n[2], str):
                        out.append("closure reads " + n[2])
            todo += [q for q in F.paths() if q.startswith(cp + "::{closure#")]
    return out


def _walk_json(x):
    yield x
    if isinstance(x, dict):
        for v in x.values():
            yield from _walk_json(v)
    elif isinstance(x, list):
        for v in x:
            yield from _walk_json(v)


def rule_g1(F, get_function=GET_FUNCTION, typed_func=TYPED_FUNC,
            required=("check_args", "check_roto_type_reflect", "HashMap", "signature")):
    r = RuleResult("C04.G1", "TypedFunc is built only after name lookup, signature test, check_args? and return check? succeeded", floor=4)
    b = F.body(get_function)
    if b is None or not b.mir:
        r.missing(get_function)
        return r
    defs = mir.Defs(b)
    sites = list(mir.agg_sites(b, typed_func))
    if not sites:
        r.missing("construction of %s in %s" % (typed_func, get_function))
        return r
    gs = mir.gates(b, defs)
    for (abb, s) in sites:
        for need in required:
            found = False
            ok = False
            for g in gs:
                names = [c[1] for c in g["chain"]] + [mir.origin_key(b, defs, g["place"])]
                for c in g["chain"]:
                    names += sorted(mir.ok_implies(F, c[1]))   # a checking helper: its success implies the success of what it checks
                    names += _closure_reads(F, b, c[0])          # `.and_then(|info| info.signature.as_ref()..)`: what the closure reads
                if not any(need in n for n in names):
                    continue
                found = True
                if mir.gated_through(b, defs, gs, g, abb):
                    ok = True
            r.inst("%s|%s" % (get_function, need),
                   {"constructor_block": abb, "gate": need, "passes_through_ok_edge": ok})
            if not found:
                r.bad(get_function, need, relfile(b.file), s["line"],
                      "no checked result of `%s` gates the construction of %s (result dropped or call removed)" % (need, typed_func))
            elif not ok:
                r.bad(get_function, need, relfile(b.file), s["line"],
                      "%s can be constructed on a path that does not pass the success edge of `%s`" % (typed_func, need))
    return r


def rule_g2(F, typed_func=TYPED_FUNC, allowed=(GET_FUNCTION,)):
    r = RuleResult("C04.G2", "TypedFunc{..} is constructed only in get_function (and its derived Clone)", floor=1)
    derived = set()
    for i in F.impls():
        if i.get("self_adt") == typed_func and i.get("derived"):
            derived.add(i["path"])
    for b in F.all_bodies():
        if not b.mir:
            continue
        for bi, s in mir.agg_sites(b, typed_func):
            r.inst("%s" % b.path, {"fn": b.path, "line": s["line"]})
            if b.path in allowed:
                continue
            if b.path.startswith("<" + typed_func) and b.path.endswith("as std::clone::Clone>::clone"):
                continue
            r.bad(b.path, "constructs " + typed_func, relfile(b.file), s["line"],
                  "%s is constructed outside the signature gate" % typed_func)
    adt = F.adt(typed_func)
    if adt is None:
        r.missing(typed_func)
    else:
        for f in adt["variants"][0]["fields"]:
            r.inst("field %s vis" % f["name"])
            if f["vis"] == "Public":
                r.bad(typed_func, "field " + f["name"], relfile(adt["file"]), adt["line"],
                      "field %s of %s is public: a handle could be built or altered outside the gate" % (f["name"], typed_func))
    return r


def try_inner_exprs(body_hir):
    """Expressions e such that `e?` occurs: the argument of Try::branch in a
    TryDesugar match."""
    out = []
    for m in hir.nodes(body_hir, "match"):
        if "TryDesugar" in m.get("src", ""):
            sc = m["e"]
            if sc.get("k") == "call" and sc.get("args"):
                out.append(sc["args"][0])
    return out


def contains_node(root, node):
    return any(n is node for n in hir.walk(root))


def _g3_length_form(r, b, path, st, params, h):
    """The arity gate written as an explicit length comparison: `if ty.len() != N { return Err(..) }` followed by indexed checks
    `check_roto_type_reflect::<A_k>(.., &ty[k-1])?`. Only `!=` (or `==` with the Err in the else) is an exact gate."""
    n = len(params)
    ld = hir.LocalDefs(b.hir)
    pidx = hir.param_index(b.hir)
    last_param = len(b.hir["params"]) - 1

    def is_ty_len(e):
        e = hir.strip(e)
        return e.get("k") == "mcall" and e["m"] == "len" and hir.param_roots(b.hir, ld, e["recv"], pidx=pidx) == {last_param}

    def const_len(e, depth=0):
        """value of an expression that denotes the Rust arity: literal, or len() of an array literal / of a local bound to one"""
        e = hir.peel_refs(hir.strip(e))
        if e.get("k") == "lit" and isinstance(e.get("v"), int):
            return e["v"]
        if e.get("k") == "mcall" and e["m"] == "len":
            x = hir.peel_refs(hir.strip(e["recv"]))
            if x.get("k") == "path" and hir.res_local(x) is not None and depth < 3:
                d = ld.get(hir.res_local(x))
                x = hir.peel_refs(hir.strip(d[1])) if d and d[1] is not None else {}
            if x.get("k") == "array":
                return len(x["elems"])
        return None
    gate = None
    for iff in hir.nodes(h, "if"):
        c = hir.strip(iff["cond"])
        if c.get("k") != "bin" or c.get("op") not in ("!=", "==", "<", ">", "<=", ">="):
            continue
        for x, y, flip in ((c["a"], c["b"], False), (c["b"], c["a"], True)):
            if is_ty_len(x) and const_len(y) is not None:
                gate = (iff, c["op"], const_len(y))
    if gate is None:
        r.bad(path, "arity", relfile(b.file), b.line, "the parameter list is neither destructured with an exact slice pattern nor compared with the Rust arity")
        return
    iff, op, k = gate
    errs = lambda br: br is not None and hir.diverges(br) and any("Err" in str(hir.result_desc(x.get("e"))) for x in hir.nodes(br, "ret"))
    exact = (op == "!=" and errs(iff["then"])) or (op == "==" and errs(iff.get("else")))
    if k != n:
        r.bad(path, "arity", relfile(b.file), iff["line"], "the parameter list is compared with %d, the Rust function type has %d parameters" % (k, n))
    if not exact:
        r.bad(path, "arity", relfile(b.file), iff["line"],
              "the arity gate is `len %s %d`: it refuses only one direction, so a Rust function type with %s parameters than the Roto function is handed out" % (op, k, "fewer" if op in ("<", "<=") else "other"))
    # indexed checks: constant propagation over the statement list (`let mut i = 0; i += 1; .. &ty[i - 1]`)
    env = {}
    tried = try_inner_exprs(h)
    seen_k = set()

    def val(e):
        e = hir.peel_refs(hir.strip(e))
        if e.get("k") == "lit" and isinstance(e.get("v"), int):
            return e["v"]
        if e.get("k") == "path" and hir.res_local(e) in env:
            return env[hir.res_local(e)]
        if e.get("k") == "bin" and e.get("op") in ("+", "-"):
            a, b_ = val(e["a"]), val(e["b"])
            if a is None or b_ is None:
                return None
            return a + b_ if e["op"] == "+" else a - b_
        return None
    body = hir.strip(h)
    for stn in (body.get("stmts") or []) + ([body["expr"]] if body.get("expr") else []):
        if stn.get("k") == "letstmt" and stn["pat"].get("k") == "bind" and stn.get("init") is not None:
            v = val(stn["init"])
            if v is not None:
                env[stn["pat"]["local"]] = v
        for n2 in hir.walk(stn):
            if n2.get("k") == "assignop" and n2.get("op") in ("+=", "-="):
                l = hir.res_local(hir.peel_refs(hir.strip(n2["lhs"])))
                v = val(n2["rhs"])
                if l in env and v is not None:
                    env[l] = env[l] + v if n2["op"] == "+=" else env[l] - v
            if n2.get("k") == "call" and hir.call_def(n2) == "codegen::check::check_roto_type_reflect":
                ga = n2["f"].get("gargs") or []
                a1 = hir.peel_refs(hir.strip(n2["args"][1]))
                idx = val(a1["i"]) if a1.get("k") == "index" and "i" in a1 else None
                if idx is None and a1.get("k") == "index":
                    idx = val(a1.get("idx") or a1.get("index") or {})
                r.inst("%s|param %s" % (st, idx), {"impl": st, "rust_type_param": ga[0] if ga else None, "roto_index": idx})
                if idx is None or not (0 <= idx < n):
                    r.bad(path, "position", relfile(b.file), n2["line"], "check_roto_type_reflect is applied to something that is not an element ty[k] with constant k")
                    continue
                seen_k.add(idx)
                if not ga or ga[0] != params[idx]:
                    r.bad(path, "param %d" % (idx + 1), relfile(b.file), n2["line"], "Roto parameter %d is checked against Rust type %s, expected %s" % (idx + 1, ga[0] if ga else "?", params[idx]))
                if not any(contains_node(t, n2) for t in tried):
                    r.bad(path, "param %d" % (idx + 1), relfile(b.file), n2["line"], "result of the check of parameter %d is not propagated with `?`" % (idx + 1))
    for k2 in range(n):
        if k2 not in seen_k:
            r.bad(path, "param %d" % (k2 + 1), relfile(b.file), b.line, "parameter %d is never checked" % (k2 + 1))


def rule_g3(F):
    r = RuleResult("C04.G3", "each RotoFunc impl: rest-less slice pattern of N bindings; binding k checked against type parameter k through `?`", floor=8 + 28)
    imps = [i for i in F.impls() if i.get("trait") == "codegen::check::RotoFunc"]
    if len(imps) < 8:
        r.missing("8 impls of codegen::check::RotoFunc (found %d)" % len(imps))
    for imp in imps:
        st = imp["self_ty"]  # fn(A1, A2) -> R
        m = re.match(r"^fn\((.*)\)( -> (.*))?$", st)
        if not m:
            r.bad(st, "self type", relfile(imp["file"]), imp["line"], "unexpected RotoFunc self type " + st)
            continue
        params = [p.strip() for p in m.group(1).split(",") if p.strip()]
        n = len(params)
        path = "<%s as codegen::check::RotoFunc>::check_args" % st
        b = F.body(path)
        if b is None:
            r.missing(path)
            continue
        h = b.hir["value"]
        # slice pattern
        lets = [l for l in hir.nodes(h, "letstmt") if l["pat"].get("k") == "pslice"]
        r.inst("%s|arity" % st, {"impl": st, "expected_bindings": n})
        if len(lets) != 1:
            _g3_length_form(r, b, path, st, params, h)
            continue
        l = lets[0]
        pat = l["pat"]
        binds = [p for p in pat["before"]]
        if pat.get("mid") is not None or pat.get("after"):
            r.bad(path, "arity", relfile(b.file), l["line"], "slice pattern has a rest (..) element: a longer Roto parameter list would be accepted")
        if len(binds) != n or any(x.get("k") != "bind" for x in binds):
            r.bad(path, "arity", relfile(b.file), l["line"], "slice pattern binds %d parameters, Rust function type has %d" % (len(binds), n))
            continue
        # the scrutinee must be the `ty` parameter itself
        init = hir.peel_refs(l["init"]) if l.get("init") else None
        pnames = [p.get("name") for p in b.hir["params"]]
        if not (init and init.get("k") == "path" and hir.res_local(init) is not None and init["res"]["name"] == pnames[-1]):
            r.bad(path, "arity", relfile(b.file), l["line"], "the slice pattern does not destructure the Roto parameter list itself")
        els = l.get("els")
        if not els or not hir.diverges(els):
            r.bad(path, "arity", relfile(b.file), l["line"], "arity mismatch does not return an error")
        else:
            descs = [hir.result_desc(x.get("e")) for x in hir.nodes(els, "ret")]
            if not any(d and "Err" in d for d in descs):
                r.bad(path, "arity", relfile(b.file), l["line"], "arity mismatch branch does not return Err(..)")
        locals_ = [x["local"] for x in binds]
        tried = try_inner_exprs(h)
        seen_k = set()
        for c in hir.nodes(h, "call"):
            cd = hir.call_def(c) or ""
            if cd != "codegen::check::check_roto_type_reflect":
                # a private helper that makes the check for one argument (`check_argument::<A1>(type_info, 1, a1)?`): its success
                # implies the success of check_roto_type_reflect, instantiated with the helper's own type parameter
                if not (cd.startswith("codegen::check::") and "check_roto_type_reflect" in mir.ok_implies(F, cd)):
                    continue
                hb_ = F.body(cd)
                inner = [x for x in hir.nodes(hb_.hir["value"], "call") if hir.call_def(x) == "codegen::check::check_roto_type_reflect"] if hb_ is not None and hb_.hir else []
                if not inner or any((x["f"].get("gargs") or [None])[0] != "T" for x in inner):
                    continue
            ga = c["f"].get("gargs") or []
            bound = [hir.res_local(hir.peel_refs(a_)) for a_ in c["args"] if hir.res_local(hir.peel_refs(a_)) in locals_]
            loc = bound[0] if bound else hir.res_local(hir.peel_refs(c["args"][1]))
            if loc not in locals_:
                r.bad(path, "position", relfile(b.file), c["line"], "check_roto_type_reflect is applied to something that is not a parameter binding")
                continue
            k = locals_.index(loc)
            seen_k.add(k)
            r.inst("%s|param %d" % (st, k + 1), {"impl": st, "rust_type_param": ga[0] if ga else None, "roto_binding_index": k + 1})
            if not ga or ga[0] != params[k]:
                r.bad(path, "param %d" % (k + 1), relfile(b.file), c["line"],
                      "Roto parameter %d is checked against Rust type %s, expected %s" % (k + 1, ga[0] if ga else "?", params[k]))
            if not any(contains_node(t, c) for t in tried):
                r.bad(path, "param %d" % (k + 1), relfile(b.file), c["line"],
                      "result of the check of parameter %d is not propagated with `?`" % (k + 1))
        for k in range(n):
            if k not in seen_k:
                r.bad(path, "param %d" % (k + 1), relfile(b.file), b.line, "parameter %d is never checked" % (k + 1))
    return r


CONSTRUCTORS = {"Verdict": 2, "Result": 2, "Option": 1, "List": 1}


def _bound_fields(ld, local):
    """Field names through which a local was bound in a destructuring pattern (`TypeName { name, arguments }` -> 'name')."""
    d = ld.get(local)
    if not d or not d[2]:
        return set()
    return {x for x in d[2] if isinstance(x, str) and x not in ("arm", "param")}


def _name_cmp_in(F, d, lit_pos, depth=0):
    """(compares with GLOBAL scope, compares with its parameter number lit_pos, hands out the arguments) for the crate-local helper d;
    a helper that passes the type and the name on to a second helper is as good as that one."""
    hb = F.body(d)
    if hb is None or not hb.hir:
        return (False, False, False)
    hh = hb.hir["value"]
    hld = hir.LocalDefs(hb.hir)
    pidx = hir.param_index(hb.hir)
    glob = any((hir.res_def(n) or "").endswith("ScopeRef::GLOBAL") for n in hir.walk(hh) if n.get("k") == "path")
    # the comparison(s): == / != whose operands involve the `name`/`ident`/`scope` of the type on one side and the parameter / GLOBAL on the other
    cmp_param = cmp_scope = False
    def expanded(e, depth=0):
        """nodes of e, plus the nodes of the initialisers of the locals it mentions (so `*name == builtin` sees the struct behind `builtin`)"""
        out = []
        for n in hir.walk(e):
            out.append(n)
            if n.get("k") == "path" and hir.res_local(n) is not None and depth < 4:
                d_ = hld.get(hir.res_local(n))
                if d_ and d_[1] is not None and not (d_[2] and d_[2][0] == "arm"):
                    out += expanded(d_[1], depth + 1)
        return out
    for c in hir.nodes(hh, "bin"):
        if c.get("op") not in ("==", "!="):
            continue
        ex = expanded(c)
        fields = {n.get("n") for n in ex if n.get("k") == "field"} | {f[0] for n in ex if n.get("k") == "struct" for f in n["fields"]} \
            | {x for n in ex if n.get("k") == "path" and hir.res_local(n) is not None for x in _bound_fields(hld, hir.res_local(n))}
        uses_param = lit_pos in hir.param_roots(hb.hir, hld, c, pidx=pidx)
        uses_glob = any((hir.res_def(n) or "").endswith("ScopeRef::GLOBAL") for n in ex if n.get("k") == "path")
        if uses_param and ({"ident", "name"} & fields):
            cmp_param = True
        if uses_glob and ({"scope", "name"} & fields):
            cmp_scope = True
    returns_arguments = any(n.get("k") == "field" and n.get("n") == "arguments" for n in hir.walk(hh)) or \
        any("arguments" in hir.pat_desc(p) for p in [x["pat"] for x in hir.nodes(hh, "letstmt")] + [a["pat"] for m in hir.nodes(hh, "match") for a in m["arms"]])
    res = (bool(glob and cmp_scope), cmp_param, returns_arguments)
    if not (res[0] and res[1]) and depth < 2:
        for c in hir.nodes(hh, "call"):
            d2 = hir.call_def(c) or ""
            if not d2.startswith("codegen::check::") or d2 in (d, CHECK_ROTO_TYPE):
                continue
            for j, a in enumerate(c["args"]):
                if hir.param_roots(hb.hir, hld, a, pidx=pidx) == {lit_pos}:
                    sub = _name_cmp_in(F, d2, j, depth + 1)
                    res = (res[0] or sub[0], res[1] or sub[1], res[2] or sub[2])
    return res


def _name_helper_info(F, init):
    """`helper(&roto_type, "NAME")`: does the crate-local helper compare the type's name with the name it is given and with the GLOBAL
    scope, and does it hand out the type's arguments?"""
    init = hir.peel_refs(hir.strip(init or {}))
    if init.get("k") != "call":
        return None
    d = hir.call_def(init)
    hb = F.body(d) if d else None
    if hb is None or not hb.hir or not d.startswith("codegen::check::"):
        return None
    lits = [hir.strip(a).get("v") for a in init["args"] if hir.strip(a).get("k") == "lit" and isinstance(hir.strip(a).get("v"), str)]
    if len(lits) != 1:
        return None
    lit_pos = [i for i, a in enumerate(init["args"]) if hir.strip(a).get("k") == "lit"][0]
    g_, p_, a_ = _name_cmp_in(F, d, lit_pos)
    return {"literal": lits[0], "helper": d, "global": g_, "by_param": p_, "arguments": a_}


def _constructor_helper(F, body):
    """The arm delegates the 'is this the built-in generic NAME, and what are its arguments' test to a crate-local helper:
    `let Some([a, b]) = helper(&roto_type, "NAME") else { return Err(..) }`. Returns None or a dict with the literal, whether
    the helper compares against the GLOBAL scope and against its name parameter, and the let statement."""
    cands = []
    for l in hir.nodes(body, "letstmt"):
        cands.append((hir.strip(l.get("init") or {}), l["pat"], l.get("els"), l))
    for m in hir.nodes(body, "match"):
        some = [a for a in m["arms"] if "Some" in hir.pat_desc(a["pat"])]
        rest = [a for a in m["arms"] if a not in some]
        if len(some) == 1 and rest:
            # the fallback: every other arm
            cands.append((hir.strip(m["e"]), some[0]["pat"], {"k": "block", "stmts": [], "expr": rest[0]["body"], "_arms": rest}, {"pat": some[0]["pat"], "els": None, "line": m["line"], "_match": m}))
    for init, pat_, els_, l in cands:
        info = _name_helper_info(F, init)
        if info is None:
            continue
        fallback_err = None
        if "_match" in l:
            fallback_err = all("Err" in str(hir.result_desc(a["body"])) for a in els_["_arms"])
        info.update({"let": l, "pattern": pat_, "match_fallback_err": fallback_err})
        return info
    return None


def _args_checker_info(F, kpath):
    """A shared checker `fn k(type_info, rust_components: &[TypeId], roto_arguments: Option<&[Type]>, mismatch) -> Result<..>`: does it
    refuse a missing argument list and a different length, and does it check the components pairwise from the front, propagating
    every failure?"""
    kb = F.body(kpath)
    if kb is None or not kb.hir:
        return None
    kh = kb.hir["value"]
    kld = hir.LocalDefs(kb.hir)
    pidx = hir.param_index(kb.hir)
    ptys = [str(p_.get("ty") or "") for p_ in kb.hir.get("params", [])]
    opt = [i for i, t in enumerate(ptys) if t.startswith("std::option::Option<&[") or t.startswith("Option<&[")]
    rust = [i for i, t in enumerate(ptys) if t.startswith("&[") and "TypeId" in t]
    whole = False
    if not opt:
        # all-in-one form: the checker is handed the Roto type itself (and the constructor's name) and takes it apart on its own
        opt = [i for i, t in enumerate(ptys) if t.replace("&", "").replace("mut ", "").strip() in ("typechecker::types::Type", "types::Type", "Type")]
        whole = True
    if len(opt) != 1 or len(rust) != 1:
        return None
    none_err = False
    if whole:
        for l in hir.nodes(kh, "letstmt"):
            if l.get("els") and hir.diverges(l["els"]) and "Err" in str(hir.result_desc(l["els"])) and opt[0] in hir.param_roots(kb.hir, kld, l.get("init") or {}, pidx=pidx) \
                    and "Type::Name" in hir.pat_desc(l["pat"]):
                none_err = True
        for m in hir.nodes(kh, "match"):
            if opt[0] in hir.param_roots(kb.hir, kld, m["e"], pidx=pidx) and any("Type::Name" in hir.pat_desc(a["pat"]) for a in m["arms"]):
                others = [a for a in m["arms"] if "Type::Name" not in hir.pat_desc(a["pat"])]
                if others and all("Err" in str(hir.result_desc(a["body"])) for a in others):
                    none_err = True
    for l in hir.nodes(kh, "letstmt"):
        if l.get("els") and hir.diverges(l["els"]) and "Err" in str(hir.result_desc(l["els"])) and opt[0] in hir.param_roots(kb.hir, kld, l.get("init") or {}, pidx=pidx) \
                and "Some" in hir.pat_desc(l["pat"]):
            none_err = True
    for m in hir.nodes(kh, "match"):
        if opt[0] in hir.param_roots(kb.hir, kld, m["e"], pidx=pidx):
            nones = [a for a in m["arms"] if hir.pat_desc(a["pat"]).endswith("None") or hir.pat_paths(a["pat"]) == ["_"]]
            if nones and all("Err" in str(hir.result_desc(a["body"])) for a in nones):
                none_err = True
    len_err = False
    for iff in hir.nodes(kh, "if"):
        c = hir.strip(iff["cond"])
        if c.get("k") == "bin" and c.get("op") in ("!=", "==") and sum(1 for m_ in hir.nodes(c, "mcall") if m_["m"] == "len") == 2:
            roots = hir.param_roots(kb.hir, kld, c, pidx=pidx)
            branch = iff["then"] if c["op"] == "!=" else iff.get("else")
            if {opt[0], rust[0]} <= roots and branch is not None and hir.diverges(branch) and "Err" in str(hir.result_desc(branch)):
                len_err = True
    zipped = False
    for z in hir.nodes(kh, "mcall"):
        if z["m"] != "zip" or not z["args"]:
            continue
        sides = hir.param_roots(kb.hir, kld, z["recv"], pidx=pidx), hir.param_roots(kb.hir, kld, z["args"][0], pidx=pidx)
        chain = {m_["m"] for m_ in hir.nodes(z, "mcall")}
        if ({rust[0]} <= sides[0] and {opt[0]} <= sides[1] or {opt[0]} <= sides[0] and {rust[0]} <= sides[1]) and not (chain & {"rev", "skip", "step_by", "skip_while", "take", "cycle", "chain"}):
            zipped = True
    tried = try_inner_exprs(kh)
    rec = [c for c in hir.nodes(kh, "call") if hir.call_def(c) == CHECK_ROTO_TYPE]
    propagated = bool(rec) and all(any(contains_node(t, c) for t in tried) for c in rec)
    return {"checker": kpath, "none_is_error": none_err, "length_mismatch_is_error": len_err, "pairwise_from_the_front": zipped, "recursive_checks": len(rec), "propagated": propagated}


def _generic_args_form(F, body, rust_binds):
    """The arm's value is `checker(type_info, &[c0, c1, ..], name_helper(&roto_type, "NAME"), mismatch)`."""
    for c in hir.nodes(body, "call"):
        d = hir.call_def(c) or ""
        if not d.startswith("codegen::check::") or d == CHECK_ROTO_TYPE:
            continue
        info = None
        comps = None
        for a in c["args"]:
            a_ = hir.peel_refs(hir.strip(a))
            if a_.get("k") == "array":
                comps = [hir.res_local(hir.peel_refs(hir.strip(e))) for e in a_["elems"]]
            ni = _name_helper_info(F, a_)
            if ni is not None:
                info = ni
        if info is None and comps is not None:
            info = _name_helper_info(F, c)      # all-in-one form: `checker(type_info, &roto_type, "NAME", &[c0, c1], mismatch)`
        if info is None or comps is None:
            continue
        k = _args_checker_info(F, d)
        if k is None:
            continue
        return {"call": c, "name": info, "components_in_order": comps == list(rust_binds), "n_components": len(comps), "checker": k}
    return None


def rule_g4(F):
    r = RuleResult("C04.G4", "constructor arms of check_roto_type: same global constructor name, arity, component pairing, propagation", floor=4 + 6 + 1)
    b = F.body(CHECK_ROTO_TYPE)
    if b is None:
        r.missing(CHECK_ROTO_TYPE)
        return r
    h = b.hir["value"]
    main = None
    for m in hir.nodes(h, "match"):
        ps = [p for a in m["arms"] for p in hir.pat_paths(a["pat"])]
        if any("TypeDescription::" in p for p in ps):
            main = m
            break
    if main is None:
        r.missing("match over TypeDescription in " + CHECK_ROTO_TYPE)
        return r
    tried = try_inner_exprs(h)
    seen = set()
    for arm in main["arms"]:
        vs = hir.pat_paths(arm["pat"])
        v = hir.last(vs[0])
        seen.add(v)
        if v not in CONSTRUCTORS:
            continue
        arity = CONSTRUCTORS[v]
        body = arm["body"]
        rust_binds = [l for (_, l) in hir.pat_bindings(arm["pat"])]
        r.inst("arm %s|name" % v, {"arm": v, "rust_components": len(rust_binds)})
        if len(rust_binds) != arity:
            r.bad(CHECK_ROTO_TYPE, "arm %s|arity" % v, relfile(b.file), arm["line"], "pattern binds %d components, constructor has %d" % (len(rust_binds), arity))
        # (1) global name literal compared
        names = []
        for cmp_ in hir.nodes(body, "bin"):
            if cmp_.get("op") not in ("!=", "=="):
                continue
            for st in hir.nodes(cmp_, "struct"):
                if hir.last(hir.res_def({"res": st["path"]}) or "") != "ResolvedName":
                    continue
                fd = dict((f[0], f[1]) for f in st["fields"])
                lit = [n.get("v") for n in hir.walk(fd.get("ident", {})) if n.get("k") == "lit"]
                scope = hir.result_desc(fd.get("scope", {}))
                names.append((cmp_["op"], lit[0] if lit else None, scope, cmp_))
        helper = _constructor_helper(F, body) if not names else None
        if helper is not None:
            r.inst("arm %s|helper" % v, {k: helper[k] for k in ("helper", "literal", "global", "by_param", "arguments")})
            if helper["literal"] != v:
                r.bad(CHECK_ROTO_TYPE, "arm %s|name" % v, relfile(b.file), helper["let"]["line"], "arm for %s accepts the Roto type named `%s`" % (v, helper["literal"]))
            if not helper["by_param"]:
                r.bad(CHECK_ROTO_TYPE, "arm %s|name" % v, relfile(b.file), helper["let"]["line"], "%s does not compare the type's name with the name it is given" % helper["helper"])
            if not helper["global"]:
                r.bad(CHECK_ROTO_TYPE, "arm %s|name" % v, relfile(b.file), helper["let"]["line"],
                      "%s accepts a type called `%s` from any scope (no comparison with ScopeRef::GLOBAL): a user enum that shadows the built-in passes the gate" % (helper["helper"], v))
        generic = _generic_args_form(F, body, rust_binds) if (not names and helper is None) else None
        if generic is not None:
            gi, gk = generic["name"], generic["checker"]
            r.inst("arm %s|generic checker" % v, {"name_helper": gi["helper"], "literal": gi["literal"], "global": gi["global"], "by_param": gi["by_param"], "components_in_order": generic["components_in_order"], "checker": gk})
            ln = generic["call"]["line"]
            if gi["literal"] != v:
                r.bad(CHECK_ROTO_TYPE, "arm %s|name" % v, relfile(b.file), ln, "arm for %s accepts the Roto type named `%s`" % (v, gi["literal"]))
            if not gi["by_param"]:
                r.bad(CHECK_ROTO_TYPE, "arm %s|name" % v, relfile(b.file), ln, "%s does not compare the type's name with the name it is given" % gi["helper"])
            if not gi["global"]:
                r.bad(CHECK_ROTO_TYPE, "arm %s|name" % v, relfile(b.file), ln,
                      "%s accepts a type called `%s` from any scope (no comparison with ScopeRef::GLOBAL): a user enum that shadows the built-in passes the gate" % (gi["helper"], v))
            r.inst("arm %s|arity" % v)
            if generic["n_components"] != arity or not gk["length_mismatch_is_error"] or not gk["none_is_error"]:
                r.bad(CHECK_ROTO_TYPE, "arm %s|arity" % v, relfile(b.file), ln,
                      "the shared checker is given %d components for a constructor of arity %d, or does not refuse a different number of Roto arguments / a type that is not this constructor (%s)" % (generic["n_components"], arity, gk))
            for j in range(arity):
                r.inst("arm %s|component %s" % (v, j), {"arm": v, "rust_component": j, "roto_argument": j, "via": gk["checker"]})
            if not generic["components_in_order"] or not gk["pairwise_from_the_front"]:
                r.bad(CHECK_ROTO_TYPE, "arm %s|pairing" % v, relfile(b.file), ln, "the components are not handed to the shared checker in declaration order, or it does not pair them with the Roto arguments from the front")
            if not gk["propagated"]:
                r.bad(CHECK_ROTO_TYPE, "arm %s|propagation" % v, relfile(b.file), ln, "the shared checker does not propagate the result of a component's check")
            vp = hir.strip(body)
            while vp.get("k") == "block" and not (vp.get("stmts") or []) and vp.get("expr") is not None:
                vp = hir.strip(vp["expr"])
            if vp is not generic["call"] and not any(contains_node(t, generic["call"]) for t in tried):
                r.bad(CHECK_ROTO_TYPE, "arm %s|propagation" % v, relfile(b.file), ln, "the result of the shared checker is neither the arm's value nor `?`-propagated")
            continue
        elif not names and helper is None:
            r.bad(CHECK_ROTO_TYPE, "arm %s|name" % v, relfile(b.file), arm["line"], "arm does not compare the Roto type's name with the global `%s`" % v)
        for (op, lit, scope, node) in names:
            if lit != v:
                r.bad(CHECK_ROTO_TYPE, "arm %s|name" % v, relfile(b.file), node["line"], "arm for %s accepts the Roto type named `%s`" % (v, lit))
            if not scope or not scope.endswith("ScopeRef::GLOBAL"):
                r.bad(CHECK_ROTO_TYPE, "arm %s|name" % v, relfile(b.file), node["line"], "name comparison is not against the global scope (%s)" % scope)
        # name mismatch must return Err: the `if` whose condition holds the != must diverge with Err
        for iff in hir.nodes(body, "if"):
            if any(n is nm[3] for nm in names for n in hir.walk(iff["cond"])):
                op = [nm[0] for nm in names if any(n is nm[3] for n in hir.walk(iff["cond"]))][0]
                branch = iff["then"] if op == "!=" else iff.get("else")
                if branch is None or not hir.diverges(branch):
                    r.bad(CHECK_ROTO_TYPE, "arm %s|name" % v, relfile(b.file), iff["line"], "a name mismatch does not leave the function with an error")
        # (2) arity slice pattern on .arguments
        roto_binds = None
        for l in hir.nodes(body, "letstmt"):
            if l["pat"].get("k") == "pref" and l["pat"]["pat"].get("k") == "pslice" or l["pat"].get("k") == "pslice":
                sp = l["pat"]["pat"] if l["pat"].get("k") == "pref" else l["pat"]
                srcs = [n.get("n") for n in hir.walk(l["init"]) if n.get("k") == "field"]
                if "arguments" not in srcs:
                    continue
                if sp.get("mid") is not None or sp.get("after"):
                    r.bad(CHECK_ROTO_TYPE, "arm %s|arity" % v, relfile(b.file), l["line"], "argument slice pattern has a rest element")
                roto_binds = [x.get("local") for x in sp["before"]]
                if not l.get("els") or not hir.diverges(l["els"]):
                    r.bad(CHECK_ROTO_TYPE, "arm %s|arity" % v, relfile(b.file), l["line"], "wrong argument count does not return an error")
        if roto_binds is None and helper is not None and helper["arguments"]:
            # `let Some([a, b]) = helper(..) else { return Err }`
            l = helper["let"]
            pat = helper["pattern"]
            inner = None
            if pat.get("k") == "pts" and len(pat.get("pats") or []) == 1:
                inner = pat["pats"][0]
                while inner.get("k") == "pref":
                    inner = inner["pat"]
            if inner is not None and inner.get("k") == "pslice":
                if inner.get("mid") is not None or inner.get("after"):
                    r.bad(CHECK_ROTO_TYPE, "arm %s|arity" % v, relfile(b.file), l["line"], "argument slice pattern has a rest element")
                roto_binds = [x.get("local") for x in inner["before"]]
                if helper.get("match_fallback_err") is not None:
                    if not helper["match_fallback_err"]:
                        r.bad(CHECK_ROTO_TYPE, "arm %s|arity" % v, relfile(b.file), l["line"], "wrong constructor / argument count does not yield an error")
                elif not l.get("els") or not hir.diverges(l["els"]):
                    r.bad(CHECK_ROTO_TYPE, "arm %s|arity" % v, relfile(b.file), l["line"], "wrong argument count does not return an error")
        r.inst("arm %s|arity" % v)
        if roto_binds is None:
            r.bad(CHECK_ROTO_TYPE, "arm %s|arity" % v, relfile(b.file), arm["line"], "arm does not destructure the Roto type arguments with a fixed-arity pattern")
            continue
        if len(roto_binds) != arity:
            r.bad(CHECK_ROTO_TYPE, "arm %s|arity" % v, relfile(b.file), arm["line"], "Roto argument pattern binds %d, constructor has %d" % (len(roto_binds), arity))
        # (3) recursive calls pair component j with argument j, and are propagated
        pairs = set()
        for c in hir.nodes(body, "call"):
            if hir.call_def(c) != CHECK_ROTO_TYPE:
                continue
            a1 = hir.res_local(hir.peel_refs(c["args"][1]))
            a2 = hir.res_local(hir.peel_refs(c["args"][2]))
            j1 = rust_binds.index(a1) if a1 in rust_binds else None
            j2 = roto_binds.index(a2) if a2 in roto_binds else None
            r.inst("arm %s|component %s" % (v, j1), {"arm": v, "rust_component": j1, "roto_argument": j2})
            if j1 is None or j2 is None or j1 != j2:
                r.bad(CHECK_ROTO_TYPE, "arm %s|pairing" % v, relfile(b.file), c["line"],
                      "recursive check pairs Rust component %s with Roto argument %s" % (j1, j2))
            else:
                pairs.add(j1)
            propagated = any(contains_node(t, c) for t in tried)
            if not propagated:
                # the call is (one of) the value(s) of the arm: tail of a block, body of an arm of a tail match, branch of a tail if
                def value_positions(e, depth=0):
                    e = hir.strip(e or {})
                    out = [e]
                    if depth > 6:
                        return out
                    if e.get("k") == "block" and e.get("expr") is not None:
                        out += value_positions(e["expr"], depth + 1)
                    if e.get("k") == "match":
                        for a_ in e["arms"]:
                            out += value_positions(a_["body"], depth + 1)
                    if e.get("k") == "if":
                        out += value_positions(e["then"], depth + 1) + value_positions(e.get("else"), depth + 1)
                    return out
                propagated = any(x is c for x in value_positions(body))
            if not propagated:
                r.bad(CHECK_ROTO_TYPE, "arm %s|propagation" % v, relfile(b.file), c["line"], "result of the recursive check is neither `?`-propagated nor the arm's value")
        for j in range(arity):
            if j not in pairs:
                r.bad(CHECK_ROTO_TYPE, "arm %s|component %d" % (v, j), relfile(b.file), arm["line"], "component %d of %s is never checked" % (j, v))
    for need in list(CONSTRUCTORS) + ["Val", "Leaf"]:
        if need not in seen:
            r.bad(CHECK_ROTO_TYPE, "arm " + need, relfile(b.file), b.line, "no arm for TypeDescription::" + need)
    # Val arm: compares the registered TypeId
    for arm in main["arms"]:
        if hir.last(hir.pat_paths(arm["pat"])[0]) != "Val":
            continue
        r.inst("arm Val|type_id")
        ok = False
        for cmp_ in hir.nodes(arm["body"], "bin"):
            if cmp_.get("op") in ("!=", "=="):
                fields = [n.get("n") for n in hir.walk(cmp_) if n.get("k") == "field"]
                if "type_id" in fields:
                    ok = True
        if not ok:
            r.bad(CHECK_ROTO_TYPE, "arm Val|type_id", relfile(b.file), arm["line"], "Val arm does not compare the registered TypeId with the Rust TypeId")
    return r


def _typeid_of(e, typeids):
    """The Rust type a TypeId expression stands for: a local bound to `TypeId::of::<X>()`, or that call itself."""
    e = hir.peel_refs(hir.strip(e))
    if e.get("k") == "call" and (hir.call_def(e) or "").endswith("TypeId::of"):
        ga = e["f"].get("gargs") or []
        return ga[0] if ga else None
    loc = hir.res_local(e) if e.get("k") == "path" else None
    return typeids.get(loc)


def _leaf_table_in(h):
    # let NAME: TypeId = TypeId::of::<X>()
    typeids = {}
    for l in hir.nodes(h, "letstmt"):
        init = l.get("init")
        if init and init.get("k") == "call" and (hir.call_def(init) or "").endswith("TypeId::of") and l["pat"].get("k") == "bind":
            ga = init["f"].get("gargs") or []
            if ga:
                typeids[l["pat"]["local"]] = ga[0]
    rows = []
    fallback = None
    for m in hir.nodes(h, "match"):
        cand = []
        fb = None
        for arm in m["arms"]:
            g = arm.get("guard")
            if g and g.get("k") == "bin" and g.get("op") == "==":
                ty = _typeid_of(g["b"], typeids) or _typeid_of(g["a"], typeids)
                body = hir.strip(arm["body"])
                if ty and body.get("k") == "lit":
                    cand.append((ty, body["v"], arm["line"]))
            elif hir.pat_paths(arm["pat"]) == ["_"] and not g:
                fb = arm
        if len(cand) >= 3:
            rows = cand
            fallback = fb
            break
    if not rows:
        rows, fallback = _leaf_table_array(h, typeids)
    return rows, fallback


def leaf_table(F):
    """rows (rust type, roto name) of the leaf table + fallback node.  The table is looked for in the signature gate itself and in the
    private helpers of its module (a `fn name_of(TypeId) -> Option<&str>` holding the rows); the fallback of such a helper is what
    its caller does with `None`."""
    gate = F.body(CHECK_ROTO_TYPE)
    if gate is None:
        return None, None, None
    cands = [gate] + [bb for bb in F.bodies_in(["src/codegen/check.rs"]) if bb.hir and bb.path != gate.path and "{closure" not in bb.path and "::tests::" not in bb.path]
    for bb in cands:
        rows, fallback = _leaf_table_in(bb.hir["value"])
        if not rows:
            continue
        if fallback is None and bb.path != gate.path:
            # what does the caller do when the helper finds no row?
            for cb in cands:
                for m in hir.nodes(cb.hir["value"], "match"):
                    sc = hir.strip(m["e"])
                    if sc.get("k") == "call" and (hir.call_def(sc) or "") == bb.path:
                        for arm in m["arms"]:
                            if hir.pat_desc(arm["pat"]).endswith("None") or hir.pat_paths(arm["pat"]) == ["_"]:
                                fallback = arm
                for l in hir.nodes(cb.hir["value"], "letstmt"):
                    ini = hir.strip(l.get("init") or {})
                    if l.get("els") and ini.get("k") == "call" and (hir.call_def(ini) or "") == bb.path:
                        fallback = {"body": l["els"], "line": l["line"], "pat": l["pat"]}
        return (gate if bb.path == gate.path else bb), rows, fallback
    return gate, [], None


def _leaf_table_array(h, typeids):
    """The same table written as an array of (TypeId, name) pairs searched with `.iter().find(|(id, _)| *id == x.type_id)`;
    the fallback is what happens when nothing is found (let-else block / None arm)."""
    for arr in hir.nodes(h, "array"):
        cand = []
        for e in arr["elems"]:
            e = hir.strip(e)
            if e.get("k") != "tup" or len(e.get("elems") or []) != 2:
                cand = []
                break
            a, bb = [hir.strip(x) for x in e["elems"]]
            if bb.get("k") != "lit":
                a, bb = bb, a
            ty_ = _typeid_of(a, typeids)
            if bb.get("k") == "lit" and ty_:
                cand.append((ty_, bb["v"], e["line"]))
            else:
                cand = []
                break
        if len(cand) < 3:
            continue
        holder = None
        for l in hir.nodes(h, "letstmt"):
            if l.get("init") is not None and hir.strip(l["init"]) is arr or (l.get("init") and any(n is arr for n in hir.walk(l["init"])) and l["pat"].get("k") == "bind" and not l.get("els")):
                holder = l["pat"].get("local")

        def mentions(n):
            return any(x is arr or (holder is not None and x.get("k") == "path" and hir.res_local(x) == holder) for x in hir.walk(n))

        # the search: find(closure) whose closure compares with `==`
        ok_search = False
        for m in hir.nodes(h, "mcall"):
            if m["m"] in ("find", "find_map", "position") and mentions(m["recv"]) and m["args"]:
                cl = hir.strip(m["args"][0])
                body = hir.strip(cl.get("body") or {}) if cl.get("k") == "closure" else {}
                if body.get("k") == "bin" and body.get("op") == "==":
                    ok_search = True
        if not ok_search:
            continue
        for l in hir.nodes(h, "letstmt"):
            if l.get("els") and l.get("init") and mentions(l["init"]):
                return cand, {"body": l["els"], "line": l["line"], "pat": l["pat"]}
        for m in hir.nodes(h, "match"):
            if mentions(m["e"]):
                for arm in m["arms"]:
                    if hir.pat_paths(arm["pat"]) in (["_"], ["None"], ["std::option::Option::None"]) or hir.pat_desc(arm["pat"]).endswith("None"):
                        return cand, arm
        return cand, None
    return [], None


DOC = "docs/source/reference/rust_interoperability.rst"


def doc_table():
    p = os.path.join(REPO, DOC)
    rows = {}
    if not os.path.exists(p):
        return None
    for line in open(p, encoding="utf-8"):
        m = re.match(r"^\|\s*``([^`]+)``\s*\|\s*``([^`]+)``", line)
        if m:
            rows[m.group(1).strip()] = m.group(2).strip()
    return rows


def registered_types(F):
    """(roto name, rust type) for every Type::value/clone/copy registration in
    runtime::basic (generic arg of the constructor + literal name)."""
    out = []
    for b in F.bodies_in(["src/runtime/basic.rs"]):
        if not b.hir:
            continue
        for c in hir.nodes(b.hir["value"], "call"):
            d = hir.call_def(c) or ""
            if d in ("runtime::items::Type::value", "runtime::items::Type::clone", "runtime::items::Type::copy"):
                ga = c["f"].get("gargs") or []
                lits = [n.get("v") for a in c["args"][:1] for n in hir.walk(a) if n.get("k") == "lit"]
                if ga and lits:
                    out.append((lits[0], ga[0], b.path, c["line"]))
    return out


def norm_rust(t):
    t = t.replace("std::net::", "").replace("inetnum::asn::", "").replace("inetnum::addr::", "")
    t = t.replace("value::string::RotoString", "RotoString").replace("std::sync::Arc<str>", "Arc<str>")
    return t


def rule_g5(F):
    r = RuleResult("C04.G5", "leaf table TypeId->name agrees with the registered built-in types and the documented mapping", floor=16)
    b, rows, fallback = leaf_table(F)
    if b is None or not rows:
        r.missing("leaf table in " + CHECK_ROTO_TYPE)
        return r, None
    reg = registered_types(F)
    regmap = {}
    for (name, rust, path, line) in reg:
        regmap.setdefault(norm_rust(rust), name)
    doc = doc_table()
    seen_names = {}
    for (rust, name, line) in rows:
        nr = norm_rust(rust)
        r.inst("row %s" % nr, {"rust": nr, "roto": name, "registered_as": regmap.get(nr), "documented_as": (doc or {}).get(name)})
        if name in seen_names and seen_names[name] != nr:
            r.bad(CHECK_ROTO_TYPE, "row " + nr, relfile(b.file), line, "Roto name `%s` is assigned to both %s and %s" % (name, seen_names[name], nr))
        seen_names[name] = nr
        if nr in regmap and regmap[nr] != name:
            r.bad(CHECK_ROTO_TYPE, "row " + nr, relfile(b.file), line,
                  "leaf table maps Rust %s to Roto `%s` but the runtime registers it as `%s`" % (nr, name, regmap[nr]))
        if nr not in regmap:
            r.bad(CHECK_ROTO_TYPE, "row " + nr, relfile(b.file), line, "leaf table row for %s has no registration in runtime::basic" % nr)
        if doc is not None and name in doc:
            d = doc[name].rsplit("::", 1)[-1]
            if d != nr and not (name == "String" and d == "Arc<str>"):
                r.bad(CHECK_ROTO_TYPE, "doc " + name, DOC, 0, "documentation maps `%s` to %s, the gate requires %s" % (name, d, nr))
    if doc is None:
        r.note("documentation table not found: " + DOC)
    else:
        undocumented = sorted(n for n in seen_names if n not in doc)
        if undocumented:
            r.note("rows without a documentation entry (not failed): %s" % undocumented)
    return r, (b, rows, fallback)


def rule_g7(F, lt):
    r = RuleResult("C04.G7", "an unknown leaf type is refused with an error, not a panic", floor=1)
    if lt is None:
        r.missing("leaf table")
        return r
    b, rows, fallback = lt
    r.inst("leaf fallback", {"fallback": hir.result_desc(fallback["body"]) if fallback else None})
    if fallback is None:
        return r
    body = fallback["body"]
    macs = set()
    for n in hir.walk(body):
        macs.update(n.get("mac") or [])
    panics = {"panic", "unreachable", "todo", "unimplemented", "ice"} & macs
    if panics or (hir.diverges(body) and not list(hir.nodes(body, "ret"))):
        r.bad(CHECK_ROTO_TYPE, "leaf fallback panics", relfile(b.file), fallback["line"],
              "a Leaf type that is not in the table (e.g. StringBytes, reachable as a return type through the public API) makes get_function panic instead of returning an error")
    else:
        descs = [hir.result_desc(x.get("e")) for x in hir.nodes(body, "ret")]
        if not any(d and "Err" in d for d in descs):
            r.bad(CHECK_ROTO_TYPE, "leaf fallback", relfile(b.file), fallback["line"], "leaf fallback neither refuses with Err nor names a type")
    return r


DESC_OF = {
    "value::verdict::Verdict": "Verdict",
    "std::result::Result": "Result",
    "std::option::Option": "Option",
    "value::list::boundary::List": "List",
    "value::val::Val": "Val",
}


def rule_g6(F):
    r = RuleResult("C04.G6", "each Value::resolve stores the TypeDescription of its own constructor, components in declaration order", floor=5)
    for imp in F.impls():
        if imp.get("trait") != "value::Value":
            continue
        st = imp["self_ty"]
        head = st.split("<", 1)[0]
        if head not in DESC_OF or "<" not in st:
            continue
        want = DESC_OF[head]
        params = [p.strip() for p in st[st.index("<") + 1:-1].split(",")]
        path = "<%s as value::Value>::resolve" % st
        b = F.body(path)
        if b is None:
            r.missing(path)
            continue
        h = b.hir["value"]
        # let x = P::resolve().type_id  -> local -> type param
        comp = {}
        for l in hir.nodes(h, "letstmt"):
            if l["pat"].get("k") != "bind" or not l.get("init"):
                continue
            for c in hir.nodes(l["init"], "call"):
                f = c["f"]
                if f.get("k") == "path" and (hir.res_def(f) or "").endswith("Value::resolve"):
                    ga = f.get("gargs") or []
                    if ga:
                        comp[l["pat"]["local"]] = ga[0]
        found = False
        for c in hir.nodes(h, "call"):
            d = hir.call_def(c) or ""
            if "TypeDescription::" in d:
                found = True
                got = hir.last(d)
                args = []
                for a in c["args"]:
                    pa = hir.peel_refs(a)
                    loc = hir.res_local(pa)
                    if loc in comp:
                        args.append(comp[loc])
                    else:
                        # inline: TypeId::of::<T>() or T::resolve().type_id
                        g = None
                        for cc in hir.nodes(a, "call"):
                            ga = cc["f"].get("gargs") or []
                            if ga:
                                g = ga[0]
                        args.append(g)
                r.inst("%s" % st, {"impl": st, "stores": got, "components": args})
                if got != want:
                    r.bad(path, "constructor", relfile(b.file), c["line"], "%s registers itself as TypeDescription::%s" % (st, got))
                if want != "Val" and args != params:
                    r.bad(path, "components", relfile(b.file), c["line"], "components stored as %s, declaration order is %s" % (args, params))
        # the description must be stored for Self
        stores = [c for c in hir.nodes(h, "call") if (hir.call_def(c) or "").endswith("TypeRegistry::store")]
        for c in stores:
            ga = c["f"].get("gargs") or []
            if ga and ga[0] != st:
                r.bad(path, "store", relfile(b.file), c["line"], "description stored under %s instead of %s" % (ga[0], st))
        if not found:
            r.bad(path, "constructor", relfile(b.file), b.line, "resolve() does not build a TypeDescription::%s" % want)
        # .. and what resolve() RETURNS is that stored entry on every exit (the gate trusts the TypeId of the returned Ty): no exit
        # hands back the entry of another type (a `Val<u32>` answering with the entry of `u32` is retrievable as `u32`)
        if b.mir:
            bdefs = mir.Defs(b)
            store_blocks = {bi for bi, t in mir.calls(b) if (mir.callee_def(t) or "").endswith("TypeRegistry::store")}
            other = []
            for d in bdefs.defs.get(0, []):
                if d[2] == "call":
                    if d[0] not in store_blocks:
                        other.append(hir.last(mir.callee_def(d[3]) or "?"))
                elif d[2] == "assign":
                    srcs = set()
                    for x in mir.rv_locals(d[3]["rv"]):
                        srcs |= mir.back_calls(b, bdefs, x)
                    if not (srcs & store_blocks):
                        other.append("a value that does not come from TypeRegistry::store")
            r.inst("%s returns its own entry" % st, {"impl": st, "exits_not_from_store": other})
            for o in other:
                r.bad(path, "returns another entry", relfile(b.file), b.line,
                      "an exit of <%s as Value>::resolve returns %s instead of the entry it stores for itself: the signature gate compares the TypeId of what resolve() returns, "
                      "so this Rust type is accepted wherever the other one is" % (st, o))
    return r


def rule_g9(F):
    r = RuleResult("C04.G9", "filtermap verdict sides that stay unconstrained are forced to unit before export (for every filtermap: the pass ends only when its loops are exhausted)", floor=3)
    cmt = [p for p in F.paths() if p.endswith("::check_module_tree")]
    fft = [p for p in F.paths() if p.endswith("::force_filtermap_types")]
    if not cmt:
        r.missing("check_module_tree")
        return r
    if not fft:
        r.missing("force_filtermap_types")
        return r
    b = F.body(cmt[0])
    calls = [(bi, t) for bi, t in mir.calls(b) if mir.callee(t).endswith("::force_filtermap_types")]
    r.inst("check_module_tree calls force_filtermap_types", {"sites": len(calls)})
    if not calls:
        r.bad(cmt[0], "force_filtermap_types", relfile(b.file), b.line, "check_module_tree never calls force_filtermap_types")
    else:
        # every path to a normal return that produced Ok passes through it: the call block dominates
        # every block that builds Ok(..) of the return type
        dom = mir.dominators(b)
        for bi, blk in enumerate(b.blocks):
            for s in blk["stmts"]:
                if s["k"] == "assign" and s["p"] == [0] and s["rv"]["k"] == "agg" and s["rv"].get("variant") == "Ok":
                    if not any(cb in dom[bi] for cb, _ in calls):
                        r.bad(cmt[0], "force_filtermap_types", relfile(b.file), s["line"], "an Ok return of check_module_tree is not dominated by force_filtermap_types")
    fb = F.body(fft[0])
    unify_unit = 0
    for c in hir.nodes(fb.hir["value"], "mcall"):
        if c["m"].startswith("unify"):
            txt = [hir.result_desc(a) for a in c["args"]]
            if any(t and "unit" in t.lower() for t in txt) or any(
                    (hir.call_def(n) or "").endswith("Type::unit") for a in c["args"] for n in hir.nodes(a, "call")):
                unify_unit += 1
    r.inst("force_filtermap_types unifies with unit", {"unify_with_unit_sites": unify_unit})
    # the pass sees EVERY filtermap: its loops are left only when they are exhausted (an early `return` where a `continue` was meant
    # leaves the filtermaps declared later with an unbound side - not obtainable under their true signature)
    if fb.mir:
        fdefs = mir.Defs(fb)
        rets = {bi for bi, blk in enumerate(fb.blocks) if blk["term"]["k"] == "return"}
        reach_ret = {bi for bi in range(len(fb.blocks)) if (mir.reachable_from(fb, bi) | {bi}) & rets}
        early = []
        nloops = 0
        for h, nodes in mir.natural_loops(fb):
            nloops += 1
            for u in nodes:
                if fb.blocks[u].get("cleanup"):
                    continue
                for v in mir.succs(fb.blocks[u]):
                    if v in nodes or v not in reach_ret or fb.blocks[v].get("cleanup"):
                        continue
                    t = fb.blocks[u]["term"]
                    exhausted = False
                    if t["k"] == "switch" and mir.is_place_op(t["o"]):
                        for d in fdefs.whole_defs(t["o"][1][0]):
                            if d[2] == "assign" and d[3]["rv"]["k"] == "discr" and "Option" in str(d[3]["rv"].get("ty") or ""):
                                if any(hir.last(mir.callee_def(fb.blocks[x]["term"]) or "") == "next" for x in mir.back_calls(fb, fdefs, d[3]["rv"]["p"][0])):
                                    exhausted = True
                    if not exhausted:
                        early.append((u, t.get("line")))
        r.inst("force_filtermap_types leaves its loops only when exhausted", {"loops": nloops, "early_exits": len(early)})
        if nloops == 0:
            r.missing("the loop over the declarations in force_filtermap_types")
        for u, ln in early[:1]:
            r.bad(fft[0], "early exit from the pass", relfile(fb.file), ln or fb.line,
                  "force_filtermap_types can return from inside its loop before every declaration has been seen: a filtermap declared after the one that takes this exit keeps an unbound "
                  "type variable for the side it never uses and cannot be obtained under its true signature `fn(..) -> Verdict<T, ()>`")
    if unify_unit < 1:
        r.bad(fft[0], "unit", relfile(fb.file), fb.line, "force_filtermap_types no longer unifies unconstrained verdict sides with unit")
    return r


def rule_g10(F):
    """The gate's view of an unconstrained literal equals the code generator's (i32 / f64)."""
    from . import c01
    r = c01.rule_t4(F)
    r.rule = "C04.G10"
    r.desc = "unconstrained literals are checked against the same default type (i32 / f64) the compiled code uses"
    for v in r.violations:
        v.rule = "C04.G10"
        v.msg = v.msg + " (the signature gate and the generated code would disagree on this position)"
    return r


def rule_g11(F):
    """The gate decides by the identity of Rust types (TypeId), position by position, in check_roto_type.  The generic entry
    check_roto_type_reflect::<T> that get_function and check_args go through has no verdict of its own: on every path its result is
    the result of check_roto_type for TypeId-of-T.  (A shortcut that accepts when the *name* of T equals the Roto type's name hands
    out `fn(Val<u32>) -> u32` for a `fn(u32) -> u32`: Val<T> reports its inner type's name.)"""
    r = RuleResult("C04.G11", "check_roto_type_reflect has no verdict of its own: every exit returns the result of check_roto_type", floor=1)
    ps = [p for p in F.paths() if p.endswith("check::check_roto_type_reflect") or p.endswith("::check_roto_type_reflect")]
    if not ps:
        r.missing("codegen::check::check_roto_type_reflect")
        return r
    for p in ps:
        b = F.body(p)
        if b is None or not b.mir:
            continue
        defs = mir.Defs(b)
        core = {bi for bi, t in mir.calls(b) if hir.last(mir.callee(t) or "") == "check_roto_type"}
        own = []
        from_core = 0
        for d in defs.defs.get(0, []):
            if d[2] == "call":
                if d[0] in core:
                    from_core += 1
                else:
                    own.append((d[0], d[3].get("line"), "result of " + hir.last(mir.callee(d[3]) or "?")))
            elif d[2] == "assign":
                rv = d[3]["rv"]
                srcs = set().union(*[mir.back_calls(b, defs, x) for x in mir.rv_locals(rv)]) if mir.rv_locals(rv) else set()
                if srcs & core and rv["k"] in ("use", "cast"):
                    from_core += 1
                else:
                    own.append((d[0], d[3].get("line"), "%s %s" % (rv["k"], rv.get("variant") or "")))
        r.inst(hir.last(p), {"fn": p, "exits_returning_check_roto_type": from_core, "own_verdicts": [x[2] for x in own]})
        if not core:
            r.bad(p, "no call of check_roto_type", relfile(b.file), b.line, "check_roto_type_reflect no longer asks check_roto_type")
        for bi, ln, what in own:
            r.bad(p, "own verdict (%s)" % what.strip(), relfile(b.file), ln or b.line,
                  "check_roto_type_reflect decides on its own (%s) instead of returning what check_roto_type says for the TypeId of the requested Rust type: a request can be "
                  "accepted without the type identity having been compared" % what.strip())
    return r


def rule_g12(F):
    """By identity, not by spelling: a Roto type stands for a Rust type because of WHICH declaration its name resolves to (scope and
    identifier together - `ResolvedName`), never because of how the identifier is spelled.  Scripts may declare `record Prefix {..}`
    or `enum Option[T] {..}` of their own; those live in the package scope and have nothing to do with the built-ins.  So every
    comparison the signature gate makes on a type name compares whole `ResolvedName`s / `Type`s; the bare `.ident` is never compared."""
    r = RuleResult("C04.G12", "the signature gate compares type names as resolved names (scope + identifier), never the bare identifier", floor=1)  # a search rule: the count is the number of comparisons examined, which helpers merge
    return _g12(F, r, ["src/codegen/check.rs"])


def _g12(F, r, files, consequence=None):
    bodies = [b for b in F.bodies_in(files) if b.hir and "::tests::" not in b.path and not (b.path.startswith("<") and " as std::cmp::" in b.path)]
    if not bodies:
        r.missing("bodies of " + ", ".join(files))
        return r
    for b in bodies:
        cmps = [n for n in hir.nodes(b.hir["value"], "bin") if n.get("op") in ("==", "!=")]
        cmps += [n for n in hir.nodes(b.hir["value"], "mcall") if n.get("m") in ("eq", "ne")]
        for c in cmps:
            sides = [c["a"], c["b"]] if c.get("k") == "bin" else [c["recv"]] + list(c["args"])
            tys = " ".join(str(hir.strip(x).get("ty") or "") for x in sides)
            bare = None
            for x in sides:
                for n in hir.walk(x):
                    if n.get("k") == "field" and n.get("n") == "ident" and "ResolvedName" in str(hir.strip(n["e"]).get("ty") or ""):
                        bare = n
            if bare is None and not ("ResolvedName" in tys or "types::Type" in tys):
                continue
            r.inst("%s line-independent #%d" % (hir.last(b.path), len(r.instances)), {"fn": b.path, "operand_types": tys[:120], "bare_identifier": bare is not None})
            if bare is not None:
                r.bad(b.path, "type name compared by identifier only", relfile(b.file), c["line"],
                      "%s compares the identifier of a resolved name (`.ident`) and ignores its scope: a type that a script declares under the name of a built-in "
                      "(`record Prefix {..}`, `enum Option[T] {..}`) %s" % (hir.last(b.path), consequence or "passes the gate as the built-in, and the function is handed out under a Rust signature it does not have"))
    return r


def rules(ctx):
    F = ctx["F"]
    g5, lt = rule_g5(F)
    return [rule_g1(F), rule_g2(F), rule_g3(F), rule_g4(F), g5, rule_g6(F), rule_g7(F, lt), rule_g9(F), rule_g10(F), rule_g11(F), rule_g12(F)]


def thorough_rules(ctx):
    from .. import witness
    return [witness.rule("C04", "C04.G8", "sealed traits and private constructor: downstream code cannot implement Value/RotoFunc or build a TypedFunc (compile-fail witnesses with compiling twins)")]
