"""C12 - compiled functions are safe and deterministic under concurrent use.
Decided: the type-level sentence 'safe Rust cannot use the API to make two
threads access non-thread-safe state without synchronisation'."""
from .. import mir, hir
from ..facts import relfile
from ..report import RuleResult

EXPLANATION = (
    "Results under all interleavings are not decided (schedules). Decided is the type-level clause: S1 every `unsafe impl Send/Sync` "
    "of the crate is audited field by field with rustc's own trait solver (type_implements_trait under the ADT's param env): each field "
    "that is not Send/Sync must be in the reviewed table together with an obligation that is itself checked on the current tree "
    "(e.g. ModuleData._registered_fns: every stored closure is Send+Sync because the RegisterableFn trait and all its blanket impls "
    "require `F: Send + Sync`; TypedFunc.func: immutable code kept alive by the SharedModuleData field; ModuleData has no &mut self "
    "method and the JIT module is only read through get_finalized_function). A new unsafe impl or a new non-Sync field under an "
    "existing one is a violation until reviewed. S3 no `static mut`; every static with interior mutability is a Mutex and every use "
    "of it goes through lock()."
)
EXPLANATION += (  # round-3 supplement
    " S5 Value::Transformed and Val<T> carry Send + Sync (read from the trait's associated-type bounds and the impl's predicates)."
)
EXPLANATION += (
    ' S6 (= C15.M7) two list / buffer mutexes that are held together are acquired in an order decided by comparing the addresses of the mutexes themselves, so two threads applying an operation with swapped operands cannot wait for each other. S7 (= C16.M1) no element address obtained under a list lock is used after the lock was released.'
)
ASSUMPTIONS = [
    "rustc's trait solver answers (Send/Sync per field) are the oracle",
    "machine code produced by cranelift is immutable after finalize_definitions",
    "interleavings of concurrent calls are not explored",
]

AUTO = ("std::marker::Send", "std::marker::Sync")


def _registerable_sync(F, r, where):
    ok = True
    tr = [t for t in F.traits() if t["path"] == "runtime::func::RegisterableFn"]
    if not tr:
        r.missing("trait runtime::func::RegisterableFn")
        return False
    sup = tr[0]["supers"]
    for need in ("Self: std::marker::Send", "Self: std::marker::Sync"):
        r.inst("RegisterableFn super %s" % need)
        if need not in sup:
            ok = False
            r.bad("runtime::func::RegisterableFn", need, relfile(tr[0]["file"]), tr[0]["line"],
                  "%s: registered closures are stored in %s and called from any thread, but the trait does not require `%s`" % (where, where, need))
    imps = [i for i in F.impls() if i.get("trait") == "runtime::func::RegisterableFn"]
    if len(imps) < 16:
        r.missing("16 blanket impls of RegisterableFn (found %d)" % len(imps))
    for i in imps:
        for need in ("F: std::marker::Send", "F: std::marker::Sync"):
            r.inst("impl %s line %s %s" % (i["trait_ref"][:60], i["line"], need))
            if need not in i["preds"]:
                ok = False
                r.bad("impl RegisterableFn", "%s|%s" % (i["trait_ref"], need), relfile(i["file"]), i["line"],
                      "blanket impl accepts closures without `%s`" % need)
    return ok


def _no_mut_self(F, r, adt_path):
    ok = True
    for i in F.impls():
        if i.get("self_adt") != adt_path or i.get("trait") == "std::ops::Drop":
            continue
        for it in i["items"]:
            if it["dk"] == "AssocFn" and "&mut " + adt_path.split("::")[-1] in it.get("sig", "") or \
                    (it["dk"] == "AssocFn" and it.get("sig", "").startswith("fn(&mut " + adt_path)):
                ok = False
                r.bad(adt_path, "&mut self method " + it["name"], relfile(i["file"]), i["line"],
                      "%s::%s takes &mut self: shared module data must stay immutable after construction" % (adt_path, it["name"]))
    return ok


def _jit_only_read(F, r):
    """Methods called on ModuleData.cranelift_jit."""
    allowed = {"get_finalized_function", "free_memory", "deref", "take", "new"}
    ok = True
    for b in F.bodies_in(["src/codegen/mod.rs", "src/codegen/testing.rs", "src/pipeline.rs"]):
        if not b.mir:
            continue
        defs = None
        for bi, t in mir.calls(b):
            if not t["args"] or not mir.is_place_op(t["args"][0]):
                continue
            if defs is None:
                defs = mir.Defs(b)
            r0, p0 = mir.origin(b, defs, t["args"][0][1])
            if "cranelift_jit" not in p0:
                continue
            name = hir.last(mir.callee_def(t))
            r.inst("jit use %s in %s" % (name, b.path))
            if name not in allowed:
                ok = False
                r.bad(b.path, "cranelift_jit." + name, relfile(b.file), t["line"],
                      "the shared JIT module is used through `%s`; only get_finalized_function (read-only) was reviewed for the unsafe Sync impl" % name)
    return ok


def _has_field_of_type(F, adt_path, ty):
    a = F.adt(adt_path)
    return a is not None and any(f["ty"] == ty for v in a["variants"] for f in v["fields"])


def _dynval_not_stored(F, r):
    ok = True
    for a in F.adts():
        for v in a["variants"]:
            for f in v["fields"]:
                if "DynVal" in f["ty"] and a["path"] != "value::dyn_val::DynVal":
                    ok = False
                    r.bad(a["path"], "field " + f["name"], relfile(a["file"]), a["line"], "DynVal (raw pointer marked Send+Sync) is stored in %s.%s" % (a["path"], f["name"]))
    return ok


def rule_s1(F):
    r = RuleResult("C12.S1", "audit of every unsafe impl Send/Sync: non-Send/Sync fields must be reviewed and their obligation must hold", floor=10)
    # reviewed (adt, field) -> obligation checker returning bool
    reviewed = {
        ("codegen::TypedFunc", "func"): lambda: _has_field_of_type(F, "codegen::TypedFunc", "codegen::SharedModuleData"),
        ("codegen::TypedFunc", "_ty"): lambda: True,  # PhantomData only
        ("codegen::ModuleData", "_roto_constants"): lambda: _no_mut_self(F, r, "codegen::ModuleData"),
        ("codegen::ModuleData", "_registered_fns"): lambda: _registerable_sync(F, r, "ModuleData._registered_fns"),
        ("codegen::ModuleData", "cranelift_jit"): lambda: _jit_only_read(F, r),
        ("runtime::func::FunctionDescription", "pointer"): lambda: _registerable_sync(F, r, "FunctionDescription.pointer"),
        ("runtime::func::FunctionDescription", "trampoline"): lambda: True,  # address of a monomorphic extern "C" fn item
        ("runtime::func::FunctionDescription", "ir_function"): lambda: True,  # evaluator adapter, only called by lir::eval (single-threaded test tool)
        ("value::dyn_val::DynVal", "0"): lambda: _dynval_not_stored(F, r),
        ("value::list::RawList", "ptr"): lambda: True,  # owned buffer; all access under the mutex: decided by C16.M2
    }
    seen = set()
    for i in F.impls():
        if not i.get("unsafe") or i.get("trait") not in AUTO:
            continue
        adt_path = i.get("self_adt")
        key = "%s for %s" % (hir.last(i["trait"]), adt_path or i["self_ty"])
        r.inst(key, {"impl": i["trait_ref"], "file": relfile(i["file"]), "line": i["line"]})
        a = F.adt(adt_path) if adt_path else None
        if a is None:
            r.bad(i["self_ty"], key, relfile(i["file"]), i["line"], "unsafe impl %s on a type that is not a local ADT: not reviewed" % i["trait"])
            continue
        which = "send" if i["trait"].endswith("Send") else "sync"
        for v in a["variants"]:
            for f in v["fields"]:
                if f[which]:
                    continue
                fk = (adt_path, f["name"])
                r.inst("%s.%s !%s" % (adt_path, f["name"], which), {"adt": adt_path, "field": f["name"], "ty": f["ty"], "not": which})
                if fk not in reviewed:
                    r.bad(adt_path, "field %s" % f["name"], relfile(a["file"]), a["line"],
                          "field %s: %s is not %s but is covered by `unsafe impl %s for %s`; it is not in the reviewed table" % (f["name"], f["ty"], which.capitalize(), hir.last(i["trait"]), adt_path))
                elif fk not in seen:
                    seen.add(fk)
                    if not reviewed[fk]():
                        # the obligation checker has reported the details
                        pass
    return r


def rule_s3(F):
    r = RuleResult("C12.S3", "no static mut; statics with interior mutability are Mutex-protected and only used through lock()", floor=1)
    for s in F.statics():
        r.inst(s["path"], {"static": s["path"], "ty": s["ty"], "mut": s["mut"]})
        if s["mut"]:
            r.bad(s["path"], "static mut", relfile(s["file"]), s["line"], "`static mut` is shared unsynchronised state")
            continue
        ty = s["ty"]
        interior = any(x in ty for x in ("Cell<", "RefCell<", "UnsafeCell<", "OnceCell<"))
        if interior and "Mutex<" not in ty and "RwLock<" not in ty:
            r.bad(s["path"], "interior mutability", relfile(s["file"]), s["line"], "static %s has unsynchronised interior mutability" % ty)
    # uses of GLOBAL_TYPE_REGISTRY go through lock()
    for b in F.bodies_in(["src/value/mod.rs"]):
        if not b.hir:
            continue
        for n in hir.walk(b.hir["value"]):
            if n.get("k") == "path" and (hir.res_def(n) or "").endswith("GLOBAL_TYPE_REGISTRY"):
                r.inst("use in " + b.path)
        for m in hir.nodes(b.hir["value"], "mcall"):
            rc = hir.peel_refs(m["recv"])
            if rc.get("k") == "path" and (hir.res_def(rc) or "").endswith("GLOBAL_TYPE_REGISTRY"):
                if m["m"] not in ("lock",):
                    r.bad(b.path, "GLOBAL_TYPE_REGISTRY." + m["m"], relfile(b.file), m["line"], "the global type registry is used without lock()")
    return r


def rule_s5(F):
    """Values that scripts can park in shared storage (script constants live in ModuleData, which is `unsafe impl Sync` and reachable
    from every clone of every handle on every thread; list elements sit behind a shared Arc) must themselves be Send + Sync: the
    `Value` trait demands it of the boundary representation and the `Val<T>` wrapper of the user's type. These bounds are what
    makes the reviewed entry `ModuleData._roto_constants` of S1 sound."""
    r = RuleResult("C12.S5", "every script-visible value type is Send + Sync: Value::Transformed and Val<T> carry the bounds", floor=4)
    tr = [t for t in F.traits() if t["path"] == "value::Value"]
    if not tr:
        r.missing("trait value::Value")
        return r
    ab = {a["name"]: a["bounds"] for a in tr[0].get("assoc_bounds", [])}
    if "Transformed" not in ab:
        r.missing("bounds of Value::Transformed (exporter)")
        return r
    for need in ("std::marker::Send", "std::marker::Sync"):
        ok = any(need in x for x in ab["Transformed"])
        r.inst("Value::Transformed: %s" % hir.last(need), {"bounds": ab["Transformed"], "ok": ok})
        if not ok:
            r.bad("value::Value", "Transformed: " + hir.last(need), relfile(tr[0]["file"]), tr[0]["line"],
                  "the boundary representation of a value is no longer required to be %s, but script constants of that type are stored in ModuleData (unsafe impl Sync) and cloned from any thread that calls a function using them" % hir.last(need))
    vi = [i for i in F.impls() if i.get("trait") == "value::Value" and i["self_ty"].startswith("value::val::Val<")]
    if not vi:
        r.missing("impl Value for Val<T>")
        return r
    for need in ("T: std::marker::Send", "T: std::marker::Sync"):
        ok = need in vi[0]["preds"]
        r.inst("Val<T>: %s" % need, {"ok": ok})
        if not ok:
            r.bad("impl Value for Val<T>", need, relfile(vi[0]["file"]), vi[0]["line"],
                  "a registered type no longer has to be %s to be wrapped in Val<T>: a `const` of that type in a script is shared by all threads that call into the package (e.g. a type with a Cell field loses updates)" % need.split("::")[-1])
    return r


def rule_s6(F):
    """Concurrent calls must terminate: two threads that apply an operation to the same two shared lists / string buffers with the
    operands swapped must not wait for each other.  Wherever two such mutexes are held together they are acquired in an order
    decided by comparing the addresses of the mutexes themselves (Arc::as_ptr) - not the addresses of the handles, which differ
    from thread to thread.  Shared with C15.M7 (and M1/M2 for the single-thread self-deadlocks)."""
    from . import c15
    from .. import locks
    bodies = c15._scope(F)
    m1 = RuleResult("C12.S6a", "no mutex is acquired while a guard on the same mutex is live")
    m2 = RuleResult("C12.S6b", "")
    r = RuleResult("C12.S6", "two list / buffer mutexes held together are acquired in an order decided by the addresses of the mutexes (no lock-order inversion between threads)", floor=2)
    c15._analyse(bodies, m1, m2, locks.lock_summaries(bodies), r)
    for v in r.violations:
        v.rule = "C12.S6"
    return r


def rule_s7(F):
    """Memory safety of concurrent calls: compiled functions on different threads may share a list, so no built-in may read an element
    through an address it obtained under the list's lock after that lock was released - another thread's push can have moved or
    freed the storage by then.  Shared with C16.M1 (escape analysis of guard-derived pointers over every body of the crate)."""
    from . import c16
    bodies = [b for b in F.all_bodies() if b.mir]
    r = RuleResult("C12.S7", "no element address obtained under a list's lock is used after the lock was released (concurrent push may move the storage)", floor=6)
    c16.rule_m1(bodies, r)
    for v in r.violations:
        v.rule = "C12.S7"
    return r


def rule_s8(F):
    """C16.M5 under C12's id: a script list shared by two threads calling one handle is only safe if storage writers have exclusive access."""
    from . import c16
    r = c16.rule_m5(F, rule_id="C12.S8")
    return r


def rule_s9(F):
    """C16.M3 under C12's id (shape of the list's lock and what RawList's unsafe Send/Sync covers)."""
    from . import c16
    r = RuleResult("C12.S9", "RawList's unsafe Send/Sync covers only the owned buffer pointer; a list handle is Arc<Mutex<RawList>>", floor=5)
    c16.rule_m3(F, r)
    for v in r.violations:
        v.rule = "C12.S9"
    return r


def rule_s10(F):
    """Every call returns what the same call returns single-threaded: the built-ins that read a whole list (`join`,
    `String.from_chars`, `to_vec`) read ONE state of it - a single lock acquisition - so a concurrent `swap` on an alias cannot make a
    call return a string with one element twice and another missing.  Shared with C15.M12 / M13."""
    from . import c15
    out = []
    for rr, nid in ((c15.rule_m12(F), "C12.S10"), (c15.rule_m13(F), "C12.S11")):
        rr.rule = nid
        for v in rr.violations:
            v.rule = nid
        out.append(rr)
    return out


def rule_s12(F):
    """Calling a handle while other threads drop packages is safe: what the code refers to by address is owned by the shared module
    data every handle holds - including the state of registered host closures (shared with C11.H13)."""
    from . import c11
    r = c11.rule_h13(F)
    r.rule = "C12.S12"
    r.desc = "registered host closures are kept alive by the shared module data that every handle owns (a handle on another thread never calls a freed closure)"
    for v in r.violations:
        v.rule = "C12.S12"
    return r


def rules(ctx):
    F = ctx["F"]
    return [rule_s1(F), rule_s3(F), rule_s5(F), rule_s6(F), rule_s7(F), rule_s8(F), rule_s9(F)] + rule_s10(F) + [rule_s12(F)]


def thorough_rules(ctx):
    from .. import witness
    return [witness.rule("C12", "C12.S2", "type-level witnesses: non-Sync / non-Send closures and Val<Rc<_>> are rejected, atomic/Arc twins compile, TypedFunc and List are Send+Sync")]
