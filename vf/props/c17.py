"""C17 - built-in methods follow their documented meaning on every argument."""
import re

from .. import mir, hir
from ..facts import relfile
from ..registry import registrations
from ..report import RuleResult

EXPLANATION = (
    "The value each built-in returns is not decided. Decided: N1 delegation agreement - every runtime registration (Function::new / "
    "new_generic with a literal name inside library!) is paired with its Rust body through the resolved fn item; where the body "
    "calls a method on its receiver, the method must carry the registered name (or be in the reviewed table pow->powf, "
    "contains->contains_owned, ...), which catches ceil->floor style slips for all widths at once; `eq` bodies must be `self == other`; "
    "N2 view unit discipline - every method of the line view reaches a line-splitting primitive, of the char view a chars/char_indices "
    "primitive, the byte view only byte primitives, and get() returns Option of the element type list() collects; N3 the "
    "macro-generated numeric to_string and float methods delegate uniformly for every width."
)
EXPLANATION += (
    ' N4 a delegating built-in passes its parameters on in declaration order. N5 out-of-range gives None: in the hand-written index arithmetic of the views every returned Some(..) is dominated by a successful lookup of the start index in the string (gate on a call that consumed string data and the index, a loop that looks one unit up per step, or a comparison with a length) and of every index the returned value depends on.'
)
EXPLANATION += (  # round-3 supplement
    ' N5 is path-based: every path to a returned Some passes a validating edge (successful lookup, per-unit loop, comparison with a length, or index == 0).'
)
EXPLANATION += (
    ' N1 also reports a method that neither delegates to the operation of its name nor is a reviewed hand-written body. N6 only the push methods of StringBuf obtain mutable access to the shared buffer.'
)
ASSUMPTIONS = [
    "Rust std / inetnum methods implement their documented meaning (trusted); only the binding of names to those methods is decided",
]

# (self type suffix, registered name) -> acceptable callee on the receiver, with reason
N1_TABLE = {
    ("f32", "pow"): ("powf", "Roto's pow takes a float exponent"),
    ("f64", "pow"): ("powf", "Roto's pow takes a float exponent"),
    ("ErasedList", "contains"): ("contains_owned", "owned-argument variant used from scripts"),
    ("ErasedList", "index"): ("index_owned", "owned-argument variant used from scripts"),
    ("Prefix", "new"): ("fn:new_relaxed", "documented: host bits are ignored"),
    ("RotoString", "from_chars"): ("fn:from_chars", "static constructor"),
    ("Val<value::string_buf::StringBuf>", "from"): ("fn:from", "static constructor"),
    ("ErasedList", "new"): ("fn:new", "static constructor"),
}
# registrations whose body is not a delegation on the receiver (nothing to compare)
N1_FREE = {
    ("RotoString", "append"): "builds the result with format!, no receiver method of that name",
    ("RotoString", "to_string"): "identity",
    ("Val<value::string_buf::StringBuf>", "new"): "constructor without receiver",
    ("ErasedList", "get"): "first parameter is the out pointer; delegates to ffi::list_get (decided by C15/C16)",
    ("ErasedList", "join"): "generic over the element type via transmute; no receiver method of that name",
}


def self_methods(b):
    params = b.hir["params"]
    if not params:
        return None, set()
    l0 = params[0].get("local")
    ld = hir.LocalDefs(b.hir)

    def is_receiver(e, depth=0):
        """the receiver parameter, a field of it, or a local that was bound to (a reference to / copy of) it"""
        e = hir.peel_refs(hir.strip(e))
        while e.get("k") == "field":
            e = hir.peel_refs(hir.strip(e["e"]))
        if e.get("k") != "path" or hir.res_local(e) is None:
            return False
        if hir.res_local(e) == l0:
            return True
        d = ld.get(hir.res_local(e))
        if depth < 4 and d is not None and d[1] is not None and d[2] == ():
            init = hir.peel_refs(hir.strip(d[1]))
            if init.get("k") == "mcall" and init["m"] in ("clone", "as_ref", "borrow", "deref", "to_owned") and not init["args"]:
                init = init["recv"]
            return is_receiver(init, depth + 1)
        return False
    M = set()
    for n in hir.walk(b.hir["value"]):
        if n.get("k") == "mcall" and is_receiver(n["recv"]):
            M.add(n["m"])
        if n.get("k") == "call":
            for a in n["args"][:1]:
                if is_receiver(a):
                    M.add("fn:" + hir.last(hir.call_def(n) or "?"))
    return params[0].get("name"), M


def rule_n1(F, regs):
    r = RuleResult("C17.N1", "each registered built-in delegates to the method of the same name on its receiver (or a reviewed alias)", floor=85)
    for g in regs:
        b = F.body(g["body"]) if g["body"] else None
        st = hir.last(g["self_ty"] or "") if g["self_ty"] else None
        st_full = g["self_ty"] or ""
        key = "%s.%s" % (st_full, g["name"])
        if b is None or not b.hir:
            r.bad(g["in"], key, relfile(g["file"]), g["line"], "cannot pair registration `%s` with its Rust body" % g["name"])
            continue
        pname, M = self_methods(b)
        r.inst(key, {"type": st_full, "name": g["name"], "receiver_calls": sorted(M)})
        name = g["name"]
        if name in M or "fn:" + name in M:
            continue
        tk = [k for k in N1_TABLE if st_full.endswith(k[0]) and k[1] == name]
        if tk:
            want = N1_TABLE[tk[0]][0]
            if want not in M:
                r.bad("builtin", key, relfile(b.file), b.line, "`%s` on %s is expected to delegate to %s, found %s" % (name, st_full, want, sorted(M)))
            continue
        if name == "eq":
            v = hir.strip(b.hir["value"])
            ok = v.get("k") == "bin" and v.get("op") == "==" and {hir.res_local(hir.peel_refs(v["a"])), hir.res_local(hir.peel_refs(v["b"]))} == {p.get("local") for p in b.hir["params"]}
            if not ok and "eq" not in M:
                r.bad("builtin", key, relfile(b.file), b.line, "`eq` on %s is not `self == other`" % st_full)
            continue
        if [k for k in N1_FREE if st_full.endswith(k[0]) and k[1] == name]:
            continue
        if M:
            r.bad("builtin", key, relfile(b.file), b.line,
                  "the built-in registered as `%s` on %s calls %s on its receiver - the name and the operation disagree" % (name, st_full, sorted(M)))
        elif g["self_ty"]:
            # a method that neither delegates to the operation of its name nor is a reviewed hand-written body (N1_FREE): on the reference
            # tree every method is one or the other, so a body written out by hand (`to_canonical` via `to_ipv4()` instead of
            # `to_ipv4_mapped()`) is a deviation from the delegation scheme that has to be read before it is trusted
            v = hir.strip(b.hir["value"])
            while v.get("k") == "block" and not (v.get("stmts") or []) and v.get("expr") is not None:
                v = hir.strip(v["expr"])
            identity = v.get("k") == "path" and hir.res_local(v) == (b.hir["params"][0].get("local") if b.hir["params"] else None)
            if not identity:
                r.bad("builtin", key + " (hand-written)", relfile(b.file), b.line,
                      "the method registered as `%s` on %s does not delegate to the operation of that name on its receiver and is not a reviewed hand-written body: "
                      "its agreement with the Rust counterpart is not given by construction" % (name, st_full))
    return r


def rule_n4(F, regs):
    from .c01 import roots
    r = RuleResult("C17.N4", "a delegating built-in passes its parameters on in declaration order", floor=6)
    for g in regs:
        b = F.body(g["body"]) if g["body"] else None
        if b is None or not b.hir:
            continue
        params = [p.get("name") for p in b.hir["params"]]
        if len(params) < 3:
            continue
        ld = hir.LocalDefs(b.hir)
        l0 = b.hir["params"][0].get("local")
        for c in hir.nodes(b.hir["value"], "mcall"):
            rc = hir.peel_refs(c["recv"])
            while rc.get("k") == "field":
                rc = hir.peel_refs(rc["e"])
            if not (rc.get("k") == "path" and hir.res_local(rc) == l0):
                continue
            if c["m"] != g["name"] and not (g["name"] in ("pow",) and c["m"] == "powf"):
                continue
            seq = []
            for a in c["args"]:
                rs = roots(ld, a) & set(params[1:])
                if len(rs) == 1:
                    seq.append(params.index(list(rs)[0]))
            key = "%s.%s" % (g["self_ty"], g["name"])
            r.inst(key, {"builtin": key, "params": params[1:], "passed_positions": seq})
            if seq != sorted(seq) or len(set(seq)) != len(seq):
                r.bad("builtin", key + " argument order", relfile(b.file), c["line"],
                      "`%s` passes its parameters to %s in the order %s (declared %s): e.g. replace(from, to) / slice(start, end) with swapped arguments" % (g["name"], c["m"], [params[i] for i in seq], params[1:]))
    return r


LINE_PRIMS = ("core::str::<impl str>::lines", "core::str::<impl str>::match_indices", "core::str::<impl str>::split_terminator",
              "core::str::<impl str>::split", "core::str::<impl str>::split_inclusive")
CHAR_PRIMS = ("core::str::<impl str>::chars", "core::str::<impl str>::char_indices")
BYTE_PRIMS = ("core::str::<impl str>::get", "core::str::<impl str>::len", "core::str::<impl str>::as_bytes", "core::str::<impl str>::bytes")


def body_callees(F, b, depth=0):
    out = set()
    for _, t in mir.calls(b):
        out.add(mir.callee_def(t))
        out.add(mir.callee(t))
        # private helpers of the string module (`StringChars::boundaries()`): what they use, the method uses
        c = mir.callee(t) or ""
        if depth < 2 and c.startswith("value::string::") and c != b.path and F.has(c):
            hb = F.body(c)
            if hb is not None and hb.mir and hir.last(c) not in ("len", "get", "slice", "list"):
                out |= body_callees(F, hb, depth + 1)
    # closures defined inside
    for p in F.paths():
        if p.startswith(b.path + "::{closure"):
            cb = F.body(p)
            if cb and cb.mir:
                for _, t in mir.calls(cb):
                    out.add(mir.callee_def(t))
    return out


def ret_type(F, path):
    b = F.body(path)
    if b is None or not b.mir:
        return None
    return b.mir["locals"][0]["ty"]


def rule_n2(F):
    r = RuleResult("C17.N2", "string views count in their own unit: lines / chars / bytes primitives; get() returns the list()'s element type", floor=12)
    views = {"StringLines": (LINE_PRIMS, "line"), "StringChars": (CHAR_PRIMS, "char"), "StringBytes": (BYTE_PRIMS, "byte")}
    for v, (prims, unit) in views.items():
        for m in ("len", "get", "slice", "list"):
            p = "value::string::%s::%s" % (v, m)
            b = F.body(p)
            if b is None:
                r.missing(p)
                continue
            cs = body_callees(F, b)
            used = sorted(hir.last(x) for x in cs if x in LINE_PRIMS + CHAR_PRIMS + BYTE_PRIMS)
            r.inst("%s.%s" % (v, m), {"view": v, "method": m, "primitives": used, "returns": ret_type(F, p)})
            if not any(x in cs for x in prims):
                r.bad(p, "unit", relfile(b.file), b.line, "%s::%s never uses a %s-indexed primitive (uses %s): it does not count in %ss" % (v, m, unit, used, unit))
            if unit == "byte" and m in ("len", "slice") and any(x in cs for x in CHAR_PRIMS + LINE_PRIMS):
                r.bad(p, "unit", relfile(b.file), b.line, "%s::%s uses char/line primitives in a byte-indexed view (%s)" % (v, m, used))
        # element type agreement
        g = ret_type(F, "value::string::%s::get" % v) or ""
        l = ret_type(F, "value::string::%s::list" % v) or ""
        ge = re.match(r"^std::option::Option<(.*)>$", g)
        le = re.match(r"^value::list::boundary::List<(.*)>$", l)
        r.inst("%s element type" % v, {"get": g, "list": l})
        if ge and le and ge.group(1) != le.group(1):
            if v == "StringBytes" and ge.group(1) == "char" and le.group(1) == "u8":
                pass  # reviewed: documented as "the character at byte offset idx"
            else:
                r.bad("value::string::%s::get" % v, "element type", "src/value/string.rs", 0,
                      "%s::get returns Option<%s> but the view's elements (list()) are %s" % (v, ge.group(1), le.group(1)))
    return r


def rule_n3(F, regs):
    r = RuleResult("C17.N3", "macro-generated numeric built-ins are uniform across widths", floor=15 + 1)
    ts = [g for g in regs if g["name"] == "to_string" and g["self_ty"] and not g["self_ty"].endswith("RotoString")]
    for g in ts:
        b = F.body(g["body"])
        _, M = self_methods(b) if b else (None, set())
        r.inst("to_string %s" % g["self_ty"], {"type": g["self_ty"], "calls": sorted(M)})
        if "to_string" not in M:
            r.bad(g["body"] or g["in"], "to_string " + g["self_ty"], relfile(g["file"]), g["line"], "to_string on %s does not use the type's Display (calls %s)" % (g["self_ty"], sorted(M)))
    if len(ts) < 15:
        r.missing("15 numeric/primitive to_string registrations (found %d)" % len(ts))
    fl = {}
    for g in regs:
        if g["self_ty"] in ("f32", "f64"):
            b = F.body(g["body"])
            _, M = self_methods(b) if b else (None, set())
            fl.setdefault(g["self_ty"], {})[g["name"]] = sorted(M)
    r.inst("float method sets", {k: sorted(v) for k, v in fl.items()})
    if fl.get("f32") != fl.get("f64"):
        r.bad("runtime::basic", "float_impl", "src/runtime/basic.rs", 0, "f32 and f64 built-ins differ: %s vs %s" % (fl.get("f32"), fl.get("f64")))
    want = {"floor", "ceil", "round", "abs", "sqrt", "pow", "is_nan", "is_infinite", "is_finite"}
    for t in ("f32", "f64"):
        if not want <= set(fl.get(t, {})):
            r.bad("runtime::basic", "float methods " + t, "src/runtime/basic.rs", 0, "%s is missing documented methods %s" % (t, sorted(want - set(fl.get(t, {})))))
    return r


N5_NEUTRAL = ("checked_sub", "checked_add", "checked_mul", "wrapping_sub", "wrapping_add", "saturating_sub", "saturating_add",
              "branch", "from_residual", "into", "from", "clone", "min", "max", "cmp", "partial_cmp", "eq", "ne", "lt", "le", "gt", "ge",
              "from_output", "into_iter", "new")


def rule_n5(F):
    """Out-of-range positions give None: in the hand-written index arithmetic of the string views, no `Some(..)` is
    produced unless the start index has been looked up in the string on the way there."""
    from .c08 import deps
    r = RuleResult("C17.N5", "string views: every Some(..) result is preceded, on every path, by a successful lookup of the start index in the string (and of every index the value is computed from)", floor=2)
    nfn = 0
    for p in sorted(F.paths()):
        if not re.match(r"^value::string::String(Bytes|Chars|Lines)::\w+$", p):
            continue
        b = F.body(p)
        if b is None or not b.mir:
            continue
        ls = b.mir["locals"]
        argc = b.mir["argc"]
        idx_params = [i for i in range(2, argc + 1) if ls[i]["ty"] == "usize"]
        if not ls[0]["ty"].startswith("std::option::Option<") or not idx_params:
            continue
        if argc < 1 or "value::string::String" not in str(ls[1]["ty"]):
            continue     # an associated helper without the view as receiver (it sees no string: its callers are the instances)
        nfn += 1
        defs = mir.Defs(b)
        dom = mir.dominators(b)
        gs = mir.gates(b, defs)
        loops = mir.natural_loops(b)

        def D(op):
            if not mir.is_place_op(op):
                return set()
            l = op[1][0]
            if 1 <= l <= argc:
                return {"arg%d" % l}
            return {x.split(".")[0] for x in deps(b, defs, l)}

        def call_deps(t):
            out = set()
            for a in t["args"]:
                out |= D(a)
            return out

        def lookup_gates(need):
            """Gates on the result of a call that consumed string data and every parameter in `need`."""
            out = []
            for g in gs:
                for c in g["chain"]:
                    t = b.blocks[c[0]]["term"]
                    if t["k"] != "call" or hir.last(mir.callee_def(t)) in N5_NEUTRAL:
                        continue
                    cd = call_deps(t)
                    if "arg1" in cd and need & cd:
                        out.append((g, c[0], cd))
            return out

        def validators(q):
            need = {"arg%d" % q}
            v = []
            why = []
            for g, cb, cd in lookup_gates(need):
                v += g["good"]
                why.append("lookup %s line %d" % (hir.last(mir.callee_def(b.blocks[cb]["term"])), b.blocks[cb]["term"]["line"]))
            # a loop running once per unit up to the index, each iteration looking one unit up (and leaving with None when there is none)
            for h, nodes in loops:
                driver = any(b.blocks[n]["term"]["k"] == "call" and hir.last(mir.callee_def(b.blocks[n]["term"])) == "next"
                             and need & call_deps(b.blocks[n]["term"]) and "arg1" not in call_deps(b.blocks[n]["term"]) for n in nodes)
                if not driver:
                    continue
                step = False
                for g in gs:
                    if g["bb"] not in nodes or not any(x not in nodes for x in g["bad"]):
                        continue
                    for c in g["chain"]:
                        t = b.blocks[c[0]]["term"]
                        if c[0] in nodes and t["k"] == "call" and hir.last(mir.callee_def(t)) not in N5_NEUTRAL and "arg1" in call_deps(t):
                            step = True
                if step:
                    v.append(h)
                    why.append("per-unit loop at line %d" % b.blocks[h]["term"].get("line", 0))
            # an explicit comparison of the index with something computed from the string
            for bi, blk in enumerate(b.blocks):
                t = blk["term"]
                if t["k"] == "switch" and mir.is_place_op(t["o"]):
                    cd = D(t["o"])
                    if "arg1" in cd and need & cd and not any(g["bb"] == bi for g in gs):
                        v += [x for _, x in t["targets"]] + [t["otherwise"]]
                        why.append("comparison line %d" % t.get("line", 0))
            # `q.checked_sub(1)` came back None: q is 0, which is in range for every string - that edge needs no lookup
            for g in gs:
                for c in g["chain"]:
                    t = b.blocks[c[0]]["term"]
                    if t["k"] == "call" and hir.last(mir.callee_def(t)) == "checked_sub" and len(t["args"]) == 2 \
                            and D(t["args"][0]) == need and (mir.op_const(t["args"][1]) or {}).get("v") == 1 \
                            and mir.is_place_op(t["args"][0]) and mir.origin_key(b, defs, t["args"][0][1]) == "arg%d" % q:
                        v += g["bad"]
                        why.append("index is 0 (checked_sub(1) is None) line %d" % t["line"])
                    # `(q - first).checked_sub(1)` came back None: q equals the first index, whose own lookup is required anyway
                    elif t["k"] == "call" and hir.last(mir.callee_def(t)) == "checked_sub" and len(t["args"]) == 2 and q != idx_params[0] \
                            and (mir.op_const(t["args"][1]) or {}).get("v") == 1 and mir.is_place_op(t["args"][0]) \
                            and D(t["args"][0]) == {"arg%d" % q, "arg%d" % idx_params[0]} \
                            and any(hir.last(mir.callee_def(b.blocks[x]["term"]) or "") in ("checked_sub", "sub", "saturating_sub") for x in mir.back_calls(b, defs, t["args"][0][1][0])):
                        v += g["bad"]
                        why.append("index equals the first index (difference.checked_sub(1) is None) line %d" % t["line"])
            return v, why
        val = {q: validators(q) for q in idx_params}
        n = 0
        # locals whose value becomes the return value
        toret = {0}
        ch = True
        while ch:
            ch = False
            for blk in b.blocks:
                for st in blk["stmts"]:
                    if st["k"] == "assign" and st["p"][0] in toret and len(st["p"]) == 1 and st["rv"]["k"] == "use" and mir.is_place_op(st["rv"]["o"]) \
                            and len(st["rv"]["o"][1]) == 1 and st["rv"]["o"][1][0] not in toret:
                        toret.add(st["rv"]["o"][1][0])
                        ch = True
        for bi, st in mir.agg_sites(b, "std::option::Option"):
            if st["rv"].get("variant") != "Some" or b.blocks[bi].get("cleanup") or st["p"][0] not in toret or len(st["p"]) != 1:
                continue
            n += 1
            payload = set()
            for o in st["rv"]["ops"]:
                payload |= D(o)
            need = [idx_params[0]] + [q for q in idx_params[1:] if "arg%d" % q in payload]
            okq = {}
            for q in need:
                # every path from the entry to this Some passes through one of the validating edges
                avoid = set(val[q][0])
                seen_, work_ = set(), [0] if 0 not in avoid else []
                reached = False
                while work_:
                    x = work_.pop()
                    if x in seen_:
                        continue
                    seen_.add(x)
                    if x == bi:
                        reached = True
                        break
                    for sx in mir.succs(b.blocks[x]):
                        if sx not in avoid and sx not in seen_:
                            work_.append(sx)
                okq[ls[q].get("name") or "arg%d" % q] = not reached
            key = "%s Some #%d" % (p.split("value::string::")[1], n)
            r.inst(key, {"fn": p, "line": st["line"], "value_depends_on": sorted(payload), "validated": okq,
                         "validators": {(ls[q].get("name") or str(q)): val[q][1] for q in need}})
            for q in need:
                nm = ls[q].get("name") or "arg%d" % q
                if not okq[nm]:
                    r.bad(p, "Some #%d without lookup of parameter %d" % (n, q - 1), relfile(b.file), st["line"],
                          "this Some(..) can be reached without a successful lookup of index `%s` in the string: an out-of-range `%s` yields Some instead of the documented None" % (nm, nm))
    if nfn < 2:
        r.missing("index-taking Option-returning methods of the string views (found %d)" % nfn)
    return r


def rule_n6(F):
    """'StringBuf accumulates what was pushed': the buffer behind every handle of a StringBuf only grows.  Who may write it: the
    push methods.  Every other method of the type (as_string, ==, clone, the constructors) touches the locked String through a
    shared reference only - no DerefMut on the guard, no mem::take / replace / swap (which would empty the buffer for every alias:
    the script's own variable is one of them)."""
    r = RuleResult("C17.N6", "StringBuf: only the push methods obtain mutable access to the shared buffer; readers leave it as it is", floor=4)
    bodies = [b for b in F.bodies_in(["src/value/string_buf.rs"]) if b.mir and "::tests::" not in b.path]
    pushes = 0
    MUTATORS = ("push", "push_str", "clear", "truncate", "drain", "insert", "insert_str", "remove", "pop", "retain", "extend", "replace_range", "as_mut_str", "as_mut_vec",
                "as_mut", "get_mut", "split_off", "shrink_to", "shrink_to_fit", "make_ascii_lowercase", "make_ascii_uppercase", "append")

    def direct_writes(b):
        out = []
        for bi, t in mir.calls(b):
            d = mir.callee_def(t) or ""
            if d.endswith("DerefMut::deref_mut") or d in ("std::mem::take", "std::mem::replace", "std::mem::swap") or hir.last(d) in ("get_mut", "clear", "truncate", "drain"):
                out.append((hir.last(d), t.get("line")))
        return out

    # a helper that locks and hands the buffer to a closure of its caller (`with_locked(|buf| ..)`): the access is the closure's, and
    # it is judged where the closure is written
    providers = set()
    for b in bodies:
        if "{closure" in b.path or not direct_writes(b):
            continue
        if any(("FnOnce::call_once" in (mir.callee_def(t) or "") or "FnMut::call_mut" in (mir.callee_def(t) or "") or "Fn::call" in (mir.callee_def(t) or "")) for _, t in mir.calls(b)) \
                and not hir.last(b.path).startswith("push"):
            providers.add(b.path)
    for b in bodies:
        name = hir.last(b.path.split("::{closure")[0])
        if b.path in providers:
            r.inst("StringBuf::%s" % name, {"fn": b.path, "hands_the_locked_buffer_to_a_closure_of_its_caller": True})
            continue
        writes = direct_writes(b)
        # what the closures of this method do with a buffer they are handed
        if "{closure" in b.path:
            parent = F.body(b.path.split("::{closure")[0])
            via_provider = parent is not None and parent.mir and any((mir.callee(t) or "") in providers for _, t in mir.calls(parent))
            if via_provider:
                for bi, t in mir.calls(b):
                    d = mir.callee_def(t) or ""
                    if (hir.last(d) in MUTATORS and ("String" in d or "str" in d or "Vec" in d)) or d in ("std::mem::take", "std::mem::replace", "std::mem::swap"):
                        writes.append((hir.last(d), t.get("line")))
        writer = name.startswith("push")
        pushes += 1 if (writer and writes) else 0
        r.inst("StringBuf::%s" % name, {"fn": b.path, "mutable_access": [w[0] for w in writes], "is_push_method": writer})
        if writes and not writer:
            r.bad(b.path, "mutable access to the buffer outside push", relfile(b.file), writes[0][1] or b.line,
                  "%s obtains mutable access to the shared buffer (%s): a reader that moves the contents out empties the buffer for every handle of it, including the script's own "
                  "variable (`b.as_string()` twice gives \"..\" then \"\")" % (name, ", ".join(w[0] for w in writes)))
    if pushes < 1:
        r.missing("the push methods of StringBuf")
    return r


def rule_n7(F):
    """Delegation is total.  A built-in that is defined AS the standard-library operation of the same name (RotoString::to_lowercase
    -> str::to_lowercase, StringBytes::len -> str::len ..) agrees with it on every argument only if every value it returns comes
    from that call.  An extra exit that answers by itself ("nothing to convert, return the string as it is") is a second, hand-made
    definition of the operation for some arguments - `to_lowercase` of a string whose only cased letters are titlecase (U+01C5) is
    where the two differ."""
    r = RuleResult("C17.N7", "a built-in that wraps the std operation of the same name returns, on every exit, a value derived from that call", floor=12)
    for b in F.all_bodies():
        if not b.mir or "{closure" in b.path or "::tests::" in b.path or not b.path.startswith("value::string::"):
            continue
        nm = hir.last(b.path)
        dels = {bi for bi, t in mir.calls(b) if hir.last(mir.callee_def(t) or "") == nm and not F.has(mir.callee(t) or "") and (mir.callee(t) or mir.callee_def(t)) != b.path
                and "convert::From" not in (mir.callee_def(t) or "")}
        if not dels:
            continue
        defs = mir.Defs(b)
        r.inst(b.path, {"fn": b.path, "delegates_to": sorted({mir.callee(b.blocks[x]["term"]) or mir.callee_def(b.blocks[x]["term"]) for x in dels})[:2]})
        for d in defs.defs.get(0, []):
            if d[2] == "call":
                ok = d[0] in dels or any(mir.is_place_op(a) and (mir.back_calls(b, defs, a[1][0]) & dels) for a in d[3].get("args") or [])
                line = d[3].get("line")
                what = "the result of " + hir.last(mir.callee(d[3]) or mir.callee_def(d[3]) or "?")
            else:
                srcs = set()
                for x in mir.rv_locals(d[3]["rv"]):
                    srcs |= mir.back_calls(b, defs, x)
                ok = bool(srcs & dels)
                line = d[3].get("line")
                what = "a value built from %s" % (sorted(hir.last(mir.callee(b.blocks[x]["term"]) or "?") for x in srcs)[:3] or "constants / its arguments")
                # None / false answers of Option / bool wrappers are range guards decided elsewhere (N5)
                rv = d[3]["rv"]
                if rv["k"] == "agg" and rv.get("variant") == "None":
                    ok = True
            if not ok:
                r.bad(b.path, "exit that does not come from the delegated call", relfile(b.file), line or b.line,
                      "%s wraps %s::%s but can also return %s: for the arguments that take this exit the built-in is defined by hand, not by the standard operation it documents "
                      "(e.g. a 'nothing to do' shortcut decided with a different predicate than the operation itself uses)" % (hir.last(b.path), "std", nm, what))
    return r


def rules(ctx):
    F = ctx["F"]
    regs = registrations(F)
    return [rule_n1(F, regs), rule_n2(F), rule_n3(F, regs), rule_n4(F, regs), rule_n5(F), rule_n6(F), rule_n7(F)]
