"""C08 - side effects happen in source order, as often as control flow dictates."""
from .. import mir, hir
from ..facts import relfile
from ..report import RuleResult

EXPLANATION = (
    "The emitted host-call sequence of all programs is not decided. Evaluation order is fixed by the order in which the MIR lowerer "
    "visits sub-expressions, and that order is a dominance fact about the lowerer's own Rust code, decided on its MIR: O1 ordered "
    "call events with argument origins - in every lowering method, the visit of the left operand / receiver / condition dominates the "
    "visit of the right operand / arguments / branch blocks (binop in all three sections, desugared and short-circuit operators with "
    "the switch and the new block between the operands, calls, assignment, if/else, while with the back-edge, for, match, ?), and "
    "Value::BinOp is built with left<-left, right<-right; O2 every traversal of AST children or IR instructions that feeds a visit is a "
    "forward traversal (no rev/rposition/sort/next_back in the iterator chain); O3 dead-code elimination truncates a block after its "
    "first terminator, found by a forward scan."
)
EXPLANATION += (  # round-3 supplement
    " O5 multiplicity: once-children before the generated loop header, per-iteration children inside the loop. O6 children are visited by traversing the AST node's own list, never by lookup."
)
EXPLANATION += (
    ' O7 (= C01.T7) the arms tried for a variant are its own arms and the wildcard arms selected from the complete arm list in source order.'
)
ASSUMPTIONS = [
    "each call of Lowerer::expr appends the code of that sub-expression to the current block (emission order = visit order)",
    "the back end (lir lowering, cranelift) preserves the order of instructions within a block",
]

L = "mir::lower::Lowerer::<'r>::"
LM = "mir::lower::match_expr::<impl mir::lower::Lowerer<'_>>::"

# function -> list of (earlier event, later event); event = (callee last segment, param name the argument must be rooted at or None)
# Parameters are selected by TYPE and position, never by name (a rename must not matter):
# E0/E1 = first/second parameter holding an expression, B0 = first block, OB = optional block, ...
SEL = {
    "E0": ("Meta<ast::Expr>", 0), "E1": ("Meta<ast::Expr>", 1), "B0": ("Meta<ast::Block>", 0),
    "OB": ("Option<parser::meta::Meta<ast::Block>>", 0), "OE": ("Option<std::boxed::Box<parser::meta::Meta<ast::Expr>>>", 0),
    "RECV": ("Option<(mir::Value", 0), "ARGS": ("[parser::meta::Meta<ast::Expr>]", 0),
}
CHAINS = {
    L + "binop": [(("expr", "E0"), ("expr", "E1")), (("assign_to_var", "E0"), ("expr", "E1"))],
    L + "desugared_binop": [(("expr", "E0"), ("expr", "E1")), (("assign_to_var", "E0"), ("expr", "E1"))],
    L + "shortcircuit_binop": [(("expr", "E0"), ("emit_switch", None)), (("emit_switch", None), ("new_block", None)), (("new_block", None), ("expr", "E1"))],
    L + "if_else": [(("expr", "E0"), ("emit_switch", None)), (("emit_switch", None), ("block", "B0")), (("emit_switch", None), ("block", "OB"))],
    L + "r#while": [(("new_block", None), ("expr", "E0")), (("expr", "E0"), ("emit_switch", None)),
                    (("emit_switch", None), ("block", "B0")), (("block", "B0"), ("emit_jump", None))],
    L + "r#for": [(("expr", "E0"), ("emit_jump", None)), (("expr", "E0"), ("block", "B0")), (("emit_switch", None), ("block", "B0"))],
    L + "assign": [(("expr", "E0"), ("emit_drop", None)), (("emit_drop", None), ("do_assign", None))],
    L + "question_mark": [(("expr", "E0"), ("emit_switch", None)), (("emit_switch", None), ("return_value", None))],
    L + "r#return": [(("expr", "OE"), ("return_value", None))],
    L + "access": [(("expr", "E0"), ("assign_to_var", None))],
    L + "normalized_function_call": [(("STORE", "RECV"), ("VISIT", "ARGS"))],
    LM + "r#match": [(("expr", None), ("emit_switch", None))],
}


def select_param(b, sel):
    """origin-key prefix of the parameter selected by (type substring, nth); tuple parameters `(x, ty)` select x."""
    sub, nth = SEL[sel]
    locs = b.mir["locals"]
    hits = []
    for i in range(1, b.mir["argc"] + 1):
        ty = locs[i]["ty"]
        if sub in ty and not (sel.startswith("E") and ("Option<" in ty or "[" in ty.split("Meta<")[0])):
            key = "arg%d" % i
            if ty.startswith("(&") or ty.startswith("("):
                key += ".0"
            hits.append(key)
    return hits[nth] if nth < len(hits) else None


def param_keys(b):
    """binding name -> origin key prefix ('arg2', 'arg5.0')"""
    out = {}
    for i, p in enumerate(b.hir["params"]):
        def rec(pat, key):
            k = pat.get("k")
            if k == "bind":
                out[pat["name"]] = key
                if "sub" in pat:
                    rec(pat["sub"], key)
            elif k == "ptuple":
                for j, q in enumerate(pat["pats"]):
                    rec(q, key + "." + str(j))
            elif k == "pref":
                rec(pat["pat"], key)
        rec(p, "arg%d" % (i + 1))
    return out


# Optional callee summaries for tuple-returning helpers: when FIELD_SUMMARY["F"] is set (a Facts object), a field read out of the
# result of a crate function only depends on the arguments that field of the callee's return value depends on
# (`let (a, b) = lock_both(x, y)`: a depends on x only).
FIELD_SUMMARY = {"F": None, "memo": {}}


def _field_args(callee, fpath):
    F = FIELD_SUMMARY["F"]
    if F is None or not callee:
        return None
    key = (id(F), callee, tuple(fpath))
    memo = FIELD_SUMMARY["memo"]
    if key in memo:
        return memo[key]
    memo[key] = None  # recursion guard: fall back to 'all arguments'
    cb = F.body(callee) if F.has(callee) else None
    if cb is None or not cb.mir:
        return None
    ds = deps(cb, mir.Defs(cb), 0, proj=[["f", x] for x in fpath])
    pos = set()
    for x in ds:
        h = x.split(".")[0]
        if h.startswith("arg") and h[3:].isdigit():
            pos.add(int(h[3:]))
    memo[key] = sorted(pos)
    return memo[key]


def _field_path(proj):
    """the leading field indices of a projection; enum downcasts are skipped (`((x as Some).0).1` -> [0, 1])"""
    out = []
    for x in proj or []:
        if isinstance(x, list) and x and x[0] == "v":
            continue
        if isinstance(x, list) and x and x[0] == "f" and isinstance(x[1], int):
            out.append(x[1])
            continue
        break
    return out


def deps(b, defs, local, depth=0, seen=None, proj=None):
    """Set of origin roots ('argN...') a local depends on through calls and assignments. `proj` is the projection with which
    the local is read: a field read out of a tuple (or `Some((a, b))`) built in place only depends on that component."""
    if seen is None:
        seen = set()
    out = set()
    fpath = _field_path(proj)
    fld = fpath[0] if fpath else None
    key = (local, tuple(fpath))
    if key in seen or depth > 40:
        return out
    seen.add(key)
    argc = b.mir["argc"]
    if 1 <= local <= argc:
        return {"arg%d" % local}
    for d in defs.defs.get(local, []):
        s = d[3]
        ops = []
        rest = []
        if d[2] == "call":
            ops = s["args"]
            if fld is not None and len(s["dest"]) == 1:
                pos = _field_args(mir.callee(s), fpath)
                if pos is not None:
                    ops = [s["args"][i - 1] for i in pos if i - 1 < len(s["args"])]
        elif d[2] == "assign":
            rv = s["rv"]
            if rv["k"] == "agg" and rv.get("ak") in ("tuple", "adt") and fld is not None and len(s["p"]) == 1 and (rv.get("ak") == "tuple" or rv.get("ops") is not None):
                ops = [rv["ops"][fld]] if fld < len(rv.get("ops", [])) else []
                rest = [["f", x] for x in fpath[1:]]
            elif rv["k"] == "use" and mir.is_place_op(rv["o"]) and fpath and len(s["p"]) == 1:
                ops = [rv["o"]]
                rest = [["f", x] for x in fpath]      # a whole-value move keeps the shape: the same component of the source
            else:
                for k in ("o", "a", "b"):
                    if k in rv:
                        ops.append(rv[k])
                ops += rv.get("ops", [])
                if "p" in rv:
                    ops.append(["cp", rv["p"]])
        for o in ops:
            if mir.is_place_op(o):
                pl = o[1]
                if 1 <= pl[0] <= argc:
                    out.add("arg%d" % pl[0] + "".join("." + x for x in mir.normalize_path(mir.proj_str(pl[1:]))))
                else:
                    out |= deps(b, defs, pl[0], depth + 1, seen, list(pl[1:]) + rest)
    return out


def closure_visit_events(F, b, defs, key_prefix):
    """Blocks of calls that receive a closure whose body visits sub-expressions, iterating over `key_prefix`."""
    out = []
    for bi, t in mir.calls(b):
        clos = None
        for a in t["args"]:
            if mir.is_place_op(a):
                for d in defs.whole_defs(a[1][0]):
                    if d[2] == "assign" and d[3]["rv"]["k"] == "agg" and d[3]["rv"].get("ak") == "closure":
                        clos = d[3]["rv"]["def"]
        if not clos:
            continue
        cb = F.body(clos)
        if cb is None or not cb.mir or not any(hir.last(mir.callee(u)) in ("expr", "stmt", "block") for _, u in mir.calls(cb)):
            continue
        if key_prefix is None:
            out.append(bi)
            continue
        ds = set()
        for a in t["args"]:
            if mir.is_place_op(a):
                ds |= deps(b, defs, a[1][0]) | {mir.origin_key(b, defs, a[1])}
        if any(x == key_prefix or x.startswith(key_prefix + ".") for x in ds):
            out.append(bi)
    return out


_VISITS_PARAM = {}


def _helper_visits_param(path, idx, depth=0):
    """does the lowerer helper `path` visit (lower with `expr`) the sub-expression it receives as MIR argument `idx` (1-based)?"""
    F = _FACTS.get("F")
    k_ = (path, idx)
    if k_ in _VISITS_PARAM:
        return _VISITS_PARAM[k_]
    _VISITS_PARAM[k_] = False
    hb = F.body(path) if F is not None else None
    res = False
    if hb is not None and hb.mir and path.startswith("mir::lower::") and hir.last(path) not in ("expr", "block", "stmt") and depth < 2 and idx <= hb.mir["argc"]:
        res = bool(events(hb, mir.Defs(hb), "expr", "arg%d" % idx, depth + 1))
    _VISITS_PARAM[k_] = res
    return res


_FACTS = {}


def events(b, defs, callee_name, key_prefix, depth=0):
    out = []
    for bi, t in mir.calls(b):
        if hir.last(mir.callee(t)) != callee_name and hir.last(mir.callee_def(t)) != callee_name:
            # a private helper of the lowerer that lowers the sub-expression it is handed counts as the visit, at the call
            if callee_name == "expr" and key_prefix is not None and depth < 2 and (mir.callee(t) or "").startswith("mir::lower::") and (mir.callee(t) or "") != b.path:
                # (a helper that is handed several sub-expressions of ours is a dispatcher with an order of its own, not a visit)
                exprs_ = {"arg%d" % j for j in range(1, b.mir["argc"] + 1) if "ast::Expr" in b.mir["locals"][j]["ty"] or "ast::Block" in b.mir["locals"][j]["ty"]}
                hit, others = None, False
                for i, a in enumerate(t["args"] or []):
                    if i == 0 or not mir.is_place_op(a):
                        continue
                    k = mir.origin_key(b, defs, a[1])
                    ds = {k} | deps(b, defs, a[1][0])
                    if any(x == key_prefix or x.startswith(key_prefix + ".") for x in ds):
                        if hit is None and _helper_visits_param(mir.callee(t), i + 1, depth):
                            hit = bi
                    elif any(any(x == e_ or x.startswith(e_ + ".") for x in ds) for e_ in exprs_ if not key_prefix.startswith(e_)):
                        others = True
                if hit is not None and not others:
                    out.append(hit)
            continue
        if key_prefix is None:
            out.append(bi)
            continue
        for a in t["args"][1:] if t["args"] else []:
            if not mir.is_place_op(a):
                continue
            k = mir.origin_key(b, defs, a[1])
            ds = {k} | deps(b, defs, a[1][0])
            if any(x == key_prefix or x.startswith(key_prefix + ".") for x in ds):
                out.append(bi)
                break
    return out


_STORERS = {}


def storing_calls(F):
    """Names of Lowerer methods that store a lowered value into a variable: do_assign / assign_to_var and every helper that hands one
    of its `mir::Value` parameters on to them."""
    if id(F) in _STORERS:
        return _STORERS[id(F)]
    out = {"do_assign", "assign_to_var"}
    for _ in range(2):
        for b in F.bodies_in(["src/mir/lower.rs", "src/mir/lower/match_expr.rs"]):
            if not b.mir or "Lowerer" not in b.path or hir.last(b.path) in out:
                continue
            vals = [i for i in range(2, b.mir["argc"] + 1) if b.mir["locals"][i]["ty"] == "mir::Value"]
            if not vals:
                continue
            defs = mir.Defs(b)
            for bi, t in mir.calls(b):
                if hir.last(mir.callee(t)) in out and any(mir.is_place_op(a) and mir.origin_key(b, defs, a[1]) in {"arg%d" % i for i in vals} for a in t["args"]):
                    out.add(hir.last(b.path))
    _STORERS.clear()
    _STORERS[id(F)] = out
    return out


def _events(F, b, defs, kind, key):
    if kind == "closure-visit":
        return closure_visit_events(F, b, defs, key)
    if kind == "STORE":
        out = []
        for nm in sorted(storing_calls(F)):
            out += events(b, defs, nm, key)
        return sorted(set(out))
    if kind == "VISIT":
        return sorted(set(closure_visit_events(F, b, defs, key) + events(b, defs, "expr", key)))
    out = events(b, defs, kind, key)
    if key is None and kind.startswith("emit_"):
        # an emitter reached through a private helper of the lowerer that itself visits no sub-expression (e.g. a helper that reads a
        # discriminant and switches on it) is that emission, at the place of the helper call
        out = sorted(set(out) | {bi for bi, t in mir.calls(b) if _emits_only(F, mir.callee(t) or "", kind)})
    return out


_EMITS = {}


def _emits_only(F, path, kind, depth=0):
    k_ = (path, kind)
    if k_ in _EMITS:
        return _EMITS[k_]
    _EMITS[k_] = False
    hb = F.body(path)
    res = False
    if hb is not None and hb.mir and path.startswith("mir::lower::") and depth < 2:
        names_ = [(mir.callee(t) or "") for _, t in mir.calls(hb)]
        visits = any(hir.last(n) in ("expr", "block", "stmt") and n.startswith("mir::lower::") for n in names_)
        res = (not visits) and any(hir.last(n) == kind or _emits_only(F, n, kind, depth + 1) for n in names_)
    _EMITS[k_] = res
    return res


def _delegates(F, b):
    """Lowerer helpers to which `b` hands its two sub-expression parameters E0 and E1 unchanged and in the same order (the work of
    an operator lowering moved into a shared helper).  Returns (list of helper bodies, list of helpers that receive them swapped)."""
    same, swapped = [], []
    k0, k1 = select_param(b, "E0"), select_param(b, "E1")
    if k0 is None or k1 is None:
        return same, swapped
    defs = mir.Defs(b)
    for bi, t in mir.calls(b):
        c = mir.callee(t) or ""
        if not c.startswith("mir::lower::") or c == b.path:
            continue
        hb = F.body(c)
        if hb is None or not hb.mir:
            continue
        h0, h1 = select_param(hb, "E0"), select_param(hb, "E1")
        if h0 is None or h1 is None:
            continue
        def argkey(hk):
            i = int(hk[3:].split(".")[0]) - 1
            if i >= len(t["args"]) or not mir.is_place_op(t["args"][i]):
                return None
            place = list(t["args"][i][1])
            if hk.endswith(".0"):
                place = place + [["f", 0, "0"]]  # a `(expr, ty)` tuple parameter: the expression is its first component
            return mir.origin_key(b, defs, place)
        a0, a1 = argkey(h0), argkey(h1)
        if a0 is None or a1 is None:
            continue
        if a0.startswith(k0) and a1.startswith(k1):
            same.append(hb)
        elif a0.startswith(k1) and a1.startswith(k0):
            swapped.append(hb)
    return same, swapped


def rule_o1(F):
    _FACTS["F"] = F
    _VISITS_PARAM.clear()
    r = RuleResult("C08.O1", "visit order in the MIR lowerer: left before right, receiver before arguments, condition before branches, loops re-enter at the condition", floor=24)
    work = [(fn, chains, F.body(fn), fn) for fn, chains in CHAINS.items()]
    for fn, chains, b, label_fn in work:
        if b is None or not b.mir:
            r.missing(fn)
            continue
        defs = mir.Defs(b)
        pk = param_keys(b)
        dom = mir.dominators(b)
        # an operator lowering that only forwards both operands to a shared helper is checked in the helper
        if all(x[1] in ("E0", "E1") for pair in chains for x in pair) and label_fn == fn:
            k0_, k1_ = select_param(b, "E0"), select_param(b, "E1")
            own = (events(b, defs, "expr", k0_) if k0_ else []) and (events(b, defs, "expr", k1_) if k1_ else [])
            if not own:
                same, swapped = _delegates(F, b)
                for hb in swapped:
                    r.bad(fn, "%s: operands handed to %s in reverse order" % (hir.last(fn), hir.last(hb.path)), relfile(b.file), b.line,
                          "the two operands are passed to the shared helper %s swapped: the right operand is evaluated first" % hir.last(hb.path))
                # only helpers that lower the operands themselves carry the obligation (dispatchers that forward once more - to
                # desugared_binop / shortcircuit_binop - have their own entries)
                def lowers(hb_):
                    hd = mir.Defs(hb_)
                    h0_, h1_ = select_param(hb_, "E0"), select_param(hb_, "E1")
                    return bool(h0_ and h1_ and events(hb_, hd, "expr", h0_) and events(hb_, hd, "expr", h1_))
                doing = [hb for hb in same if lowers(hb) and hb.path not in CHAINS]     # a helper with an entry of its own is checked against that
                if doing:
                    for hb in doing:
                        work.append((hb.path, chains, hb, fn + " via " + hir.last(hb.path)))
                    continue
        for (e1, e2) in chains:
            k1 = select_param(b, e1[1]) if e1[1] else None
            k2 = select_param(b, e2[1]) if e2[1] else None
            if (e1[1] and k1 is None) or (e2[1] and k2 is None):
                r.missing("%s parameter %s/%s" % (hir.last(fn), e1[1], e2[1]))
                continue
            ev1 = _events(F, b, defs, e1[0], k1)
            ev2 = _events(F, b, defs, e2[0], k2)
            key = "%s: %s(%s) before %s(%s)" % (hir.last(label_fn.split(" via ")[0]) + (" via " + label_fn.split(" via ")[1] if " via " in label_fn else ""), e1[0], e1[1] or "", e2[0], e2[1] or "")
            r.inst(key, {"fn": hir.last(fn), "first": [e1[0], e1[1], ev1], "then": [e2[0], e2[1], ev2]})
            if not ev1 or not ev2:
                r.bad(fn, key, relfile(b.file), b.line, "event missing: %s found %d times, %s found %d times" % (e1, len(ev1), e2, len(ev2)))
                continue
            # every occurrence of the later event is dominated by an occurrence of the earlier one,
            # unless it itself precedes all earlier ones (handled as violation)
            for y in ev2:
                if not any(x in dom[y] and x != y for x in ev1):
                    # an event may legitimately appear several times (e.g. emit_jump before the loop and at its end): require at least one ordered pair
                    pass
            ok_any = any(any(x in dom[y] and x != y for x in ev1) for y in ev2)
            reversed_ = any(any(y in dom[x] and x != y for y in ev2) for x in ev1) and e1[0] == e2[0]
            strict = e1[0] in ("expr", "assign_to_var") and e2[0] in ("expr", "block")
            if strict:
                bad = [y for y in ev2 if not any(x in dom[y] and x != y for x in ev1)]
                if bad:
                    r.bad(fn, key, relfile(b.file), b.blocks[bad[0]]["term"]["line"],
                          "%s(%s) can run without %s(%s) having been visited first: evaluation order of the two sub-expressions is not source order" % (e2[0], e2[1], e1[0], e1[1]))
                elif reversed_ and not all(any(x in dom[y] and x != y for x in ev1) for y in ev2):
                    r.bad(fn, key, relfile(b.file), b.line, "operands visited in reverse order")
            elif not ok_any:
                # optional sub-expressions (if let Some(..)): order on paths instead of dominance -
                # the later event is reachable from the earlier one and never the other way round
                fwd = any(y in mir.reachable_from(b, x) and y != x for x in ev1 for y in ev2)
                back = any(x in mir.reachable_from(b, y) and y != x for x in ev1 for y in ev2)
                if not fwd or back:
                    r.bad(fn, key, relfile(b.file), b.line, "%s(%s) is not preceded by %s(%s) on the lowering path" % (e2[0], e2[1] or "", e1[0], e1[1] or ""))
    # while: the back edge targets the condition block label: emit_jump(lbl) at the end uses the label of new_block before expr(condition)
    b = F.body(L + "r#while")
    if b is not None:
        defs = mir.Defs(b)
        nb = [(bi, t) for bi, t in mir.calls(b) if hir.last(mir.callee(t)) == "new_block"]
        ej = [(bi, t) for bi, t in mir.calls(b) if hir.last(mir.callee(t)) == "emit_jump"]
        ex = events(b, defs, "expr", select_param(b, "E0"))
        dom = mir.dominators(b)
        ok = False
        if nb and ej and ex:
            cond_nb = [x for x in nb if x[0] in dom[ex[0]]]
            if cond_nb:
                lbl = mir.origin_key(b, defs, cond_nb[-1][1]["args"][1][1])
                last_jump = [x for x in ej if ex[0] in dom[x[0]]]
                ok = any(mir.origin_key(b, defs, x[1]["args"][1][1]) == lbl for x in last_jump)
        r.inst("while back edge", {"ok": ok})
        if not ok:
            r.bad(b.path, "while back edge", relfile(b.file), b.line, "the jump at the end of the loop body does not go back to the block in which the condition is evaluated")
    # Value::BinOp wiring in binop (or in the helper(s) it forwards both operands to)
    b0 = F.body(L + "binop")
    wiring_bodies = []
    if b0 is not None:
        same_, _sw = _delegates(F, b0)
        wiring_bodies = [b0] + same_
    n = 0
    for b in wiring_bodies:
        defs = mir.Defs(b)
        pk = param_keys(b)
        for bi, blk in enumerate(b.blocks):
            for s in blk["stmts"]:
                if s["k"] == "assign" and s["rv"]["k"] == "agg" and s["rv"].get("adt") == "mir::Value" and s["rv"].get("variant") == "BinOp":
                    names = s["rv"]["fields"]
                    ops = dict(zip(names, s["rv"]["ops"]))
                    dl = deps(b, defs, ops["left"][1][0]) if mir.is_place_op(ops.get("left")) else set()
                    dr = deps(b, defs, ops["right"][1][0]) if mir.is_place_op(ops.get("right")) else set()
                    n += 1
                    lk, rk = select_param(b, "E0"), select_param(b, "E1")
                    okl = lk in dl and rk not in dl
                    okr = rk in dr and lk not in dr
                    r.inst("Value::BinOp #%d" % n, {"left_depends_on": sorted(dl), "right_depends_on": sorted(dr)})
                    if not (okl and okr):
                        r.bad(b.path, "Value::BinOp wiring #%d" % n, relfile(b.file), s["line"], "Value::BinOp { left <- %s, right <- %s }: operands are swapped or mixed" % (sorted(dl), sorted(dr)))
    if b0 is not None and n < 1:
        r.missing("Value::BinOp constructions in binop or its operand helper (found %d)" % n)
    return r


VALUE_TY = "mir::Value"
MATERIALIZE = {"assign_to_var", "do_assign", "emit_assign", "return_value", "make_enum", "normalized_function_call", "call_runtime"}


def rule_o4(F):
    r = RuleResult("C08.O4", "a lazily lowered operand (mir::Value) is stored before the next sub-expression is visited, and never escapes a closure un-stored", floor=20)
    bodies = [b for b in F.bodies_in(["src/mir/lower.rs", "src/mir/lower/match_expr.rs"]) if b.mir]
    for b in bodies:
        locs = b.mir["locals"]
        defs = None
        visits = [(bi, t) for bi, t in mir.calls(b) if mir.callee(t).startswith("mir::lower::") and hir.last(mir.callee(t)) in ("expr", "block_expr", "stmt", "block")]
        if not visits:
            continue
        dom = None
        for (xb, xt) in visits:
            d = xt["dest"]
            if len(d) != 1 or locs[d[0]]["ty"] != VALUE_TY:
                continue
            if defs is None:
                defs = mir.Defs(b)
                dom = mir.dominators(b)
            v = d[0]
            # locals that carry the value (moves, tuple/aggregate packing)
            carriers = {v}
            changed = True
            while changed:
                changed = False
                for l, ds in defs.defs.items():
                    if l in carriers:
                        continue
                    for dd in ds:
                        if dd[2] != "assign":
                            continue
                        rv = dd[3]["rv"]
                        ops = []
                        for k in ("o",):
                            if k in rv:
                                ops.append(rv[k])
                        ops += rv.get("ops", [])
                        if any(mir.is_place_op(o) and o[1][0] in carriers for o in ops):
                            carriers.add(l)
                            changed = True
            consumers = []
            for bi, t in mir.calls(b):
                if bi == xb:
                    continue
                if any(mir.is_place_op(a) and a[1][0] in carriers for a in t["args"]):
                    consumers.append(bi)
            escapes = 0 in carriers and b.def_kind == "Closure"
            what = "?"
            if len(xt["args"]) > 1 and mir.is_place_op(xt["args"][1]):
                what = mir.origin_key(b, defs, xt["args"][1][1])
            key = "%s visit@%s" % (hir.last(b.path) if b.def_kind != "Closure" else b.path.split("::")[-2] + "::closure", what)
            r.inst(key + " #%d" % len(r.instances), {"fn": b.path, "line": xt["line"], "consumers": len(consumers), "escapes_closure": escapes})
            if escapes:
                r.bad(b.path, "value escapes closure", relfile(b.file), xt["line"],
                      "the closure returns the un-stored result of visiting a sub-expression: all elements are visited first and read later, so a later element can change the value of an earlier one")
                continue
            reach_x = mir.reachable_from(b, xb)
            for (yb, yt) in visits:
                if yb == xb or yb not in reach_x:
                    continue
                # is the value still pending at Y?  (no consumer dominates Y after X)
                if any(c in dom[yb] and c in reach_x for c in consumers):
                    continue
                # and is it consumed after Y?
                reach_y = mir.reachable_from(b, yb)
                if not any(c in reach_y for c in consumers):
                    continue
                # loops: X reachable from Y through a back edge that re-defines v is fine
                if xb in reach_y and not any(c in reach_y and xb not in mir.reachable_from(b, c) for c in consumers):
                    continue
                r.bad(b.path, "value held across visit", relfile(b.file), yt["line"],
                      "the result of visiting one sub-expression (line %s) is still un-stored while another sub-expression is visited (line %s): a read of a variable on the left is performed after the side effects of the right" % (xt["line"], yt["line"]))
                break
    return r


REVERSERS = {"rev", "rposition", "rfind", "rfold", "next_back", "sort", "sort_by", "sort_by_key", "sort_unstable", "reverse", "rsplit", "pop", "last"}
VISITS = {"expr", "stmt", "block", "block_expr", "instruction", "match_case", "function_like", "function", "filter_map", "item", "lower_item",
          "process_block", "define_function", "declare_function"}
O2_FILES = ["src/mir/lower.rs", "src/mir/lower/match_expr.rs", "src/lir/lower.rs", "src/mir/dead_code.rs"]


def rule_o2(F):
    r = RuleResult("C08.O2", "every traversal that feeds a visit of AST children / IR instructions is a forward traversal", floor=12)
    for b in F.bodies_in(O2_FILES):
        if not b.mir:
            continue
        defs = None
        for bi, t in mir.calls(b):
            if hir.last(mir.callee_def(t)) != "next" or "Iterator" not in mir.callee_def(t):
                continue
            if defs is None:
                defs = mir.Defs(b)
            dest = t["dest"][0]
            # does an element of this iterator reach a visit call?
            feeds = None
            for bj, u in mir.calls(b):
                nm = hir.last(mir.callee(u))
                if nm in VISITS or "{closure" in mir.callee(u):
                    for a in u["args"]:
                        if mir.is_place_op(a):
                            root, _ = mir.origin(b, defs, a[1])
                            if root.startswith("call:") and "::next" in root:
                                # which next? compare through value chain of the arg local
                                ch = mir.value_chain(b, defs, a[1][0])
                                if any(c[0] == bi for c in ch) or mir.op_local(a) == dest:
                                    feeds = nm
                            elif mir.is_place_op(a) and a[1][0] == dest:
                                feeds = nm
            if feeds is None:
                # also: pattern bindings copied out of the Option
                for bj, u in mir.calls(b):
                    nm = hir.last(mir.callee(u))
                    if nm in VISITS:
                        for a in u["args"]:
                            if mir.is_place_op(a):
                                r0, p0 = mir.origin(b, defs, a[1])
                                ds = defs.whole_defs(a[1][0])
                                if r0 == "local%d" % dest or any(d[2] == "assign" and mir.is_place_op(d[3]["rv"].get("o")) and d[3]["rv"]["o"][1][0] == dest for d in ds):
                                    feeds = nm
            if feeds is None:
                continue
            a0 = t["args"][0]
            chain = mir.value_chain(b, defs, a0[1][0]) if mir.is_place_op(a0) else []
            names = [hir.last(c[2]) for c in chain]
            key = "%s -> %s" % (b.path, feeds)
            r.inst(key + " #%d" % len(r.instances), {"fn": b.path, "line": t["line"], "iterator_chain": names, "feeds": feeds})
            bad = [n for n in names if n in REVERSERS]
            if bad:
                r.bad(b.path, "%s traversal uses %s" % (feeds, bad[0]), relfile(b.file), t["line"],
                      "the children visited by %s are traversed with %s: they are evaluated out of source order" % (feeds, bad[0]))
        # iterator adaptors with closures that visit (map(|a| self.expr(a)))
        for bi, t in mir.calls(b):
            nm = hir.last(mir.callee_def(t))
            if nm not in ("map", "for_each", "flat_map", "extend", "collect", "filter_map"):
                continue
            clos = None
            for a in t["args"]:
                if mir.is_place_op(a):
                    if defs is None:
                        defs = mir.Defs(b)
                    for d in defs.whole_defs(a[1][0]):
                        if d[2] == "assign" and d[3]["rv"]["k"] == "agg" and d[3]["rv"].get("ak") == "closure":
                            clos = d[3]["rv"]["def"]
            if not clos:
                continue
            cb = F.body(clos)
            if cb is None or not cb.mir:
                continue
            if not any(hir.last(mir.callee(u)) in VISITS for _, u in mir.calls(cb)):
                continue
            a0 = t["args"][0]
            chain = mir.value_chain(b, defs, a0[1][0]) if mir.is_place_op(a0) else []
            names = [hir.last(c[2]) for c in chain]
            r.inst("%s -> closure visit #%d" % (b.path, len(r.instances)), {"fn": b.path, "adaptor": nm, "iterator_chain": names})
            bad = [n for n in names if n in REVERSERS]
            if bad:
                r.bad(b.path, "closure traversal uses %s" % bad[0], relfile(b.file), t["line"], "sub-expressions are visited through %s: evaluated out of source order" % bad[0])
    return r


def rule_o3(F):
    r = RuleResult("C08.O3", "dead-code elimination cuts a block after its first terminator (forward scan)", floor=1)
    ps = [p for p in F.paths() if p.startswith("mir::dead_code::") and "{closure" not in p]
    found = False
    for p in ps:
        b = F.body(p)
        if not b.mir:
            continue
        tr = [(bi, t) for bi, t in mir.calls(b) if hir.last(mir.callee_def(t)) == "truncate"]
        if not tr:
            continue
        found = True
        defs = mir.Defs(b)
        for bi, t in tr:
            # the truncation length must be index+1 where index comes from a forward enumerate/position
            a = t["args"][1]
            chain = mir.value_chain(b, defs, a[1][0]) if mir.is_place_op(a) else []
            # look at how the length is computed
            ok_plus_one = False
            for d in defs.whole_defs(a[1][0]) if mir.is_place_op(a) else []:
                if d[2] == "assign":
                    rv = d[3]["rv"]
                    if rv["k"] == "use" and mir.is_place_op(rv["o"]):
                        src = rv["o"][1][0]
                        for d2 in defs.defs.get(src, []):
                            if d2[2] == "assign" and d2[3]["rv"]["k"] == "bin" and d2[3]["rv"]["op"] in ("AddWithOverflow", "Add"):
                                c = mir.op_const(d2[3]["rv"]["b"])
                                ok_plus_one = bool(c and c.get("v") == 1)
                    if rv["k"] == "bin" and rv["op"] in ("AddWithOverflow", "Add"):
                        c = mir.op_const(rv["b"])
                        ok_plus_one = bool(c and c.get("v") == 1)
            iters = [hir.last(mir.callee_def(u)) for _, u in mir.calls(b)]
            rev = [n for n in iters if n in REVERSERS]
            fwd = any(n in ("enumerate", "position") for n in iters)
            r.inst(p, {"fn": p, "truncate_len_is_index_plus_one": ok_plus_one, "forward_scan": fwd, "reversers": rev})
            if not ok_plus_one:
                r.bad(p, "truncate length", relfile(b.file), t["line"], "the block is not truncated at (index of the first terminator) + 1")
            if rev or not fwd:
                r.bad(p, "scan direction", relfile(b.file), t["line"], "the terminator is not found by a forward scan (%s)" % (rev or "no enumerate/position"))
    if not found:
        r.missing("truncate call in mir::dead_code")
    return r


# how often each child of a loop construct is evaluated: "each" = once per iteration (inside the generated loop),
# "once" = before the loop header
MULT = {
    L + "r#while": {"E0": ("expr", "each"), "B0": ("block", "each")},
    L + "r#for": {"E0": ("expr", "once"), "B0": ("block", "each")},
}


def loop_regions(b, defs):
    """Generated loops of a lowering method: (new_block site of the header, back-edge emit_jump site, region) where the header
    label of a `new_block(L)` is jumped to again by an `emit_jump(L)` that is emitted later. The region is what is emitted
    between the two, i.e. the code that runs once per iteration."""
    nb = [(bi, t) for bi, t in mir.calls(b) if hir.last(mir.callee(t)) == "new_block" and len(t["args"]) > 1 and mir.is_place_op(t["args"][1])]
    ej = [(bi, t) for bi, t in mir.calls(b) if hir.last(mir.callee(t)) == "emit_jump" and len(t["args"]) > 1 and mir.is_place_op(t["args"][1])]
    out = []
    for nbi, nt in nb:
        lbl = mir.origin_key(b, defs, nt["args"][1][1])
        fwd = mir.reachable_from(b, nbi)
        for jbi, jt in ej:
            if jbi == nbi or jbi not in fwd or mir.origin_key(b, defs, jt["args"][1][1]) != lbl:
                continue
            region = {x for x in fwd if x != nbi and jbi in mir.reachable_from(b, x)} | {jbi}
            out.append((nbi, jbi, region))
    return out


def rule_o5(F):
    r = RuleResult("C08.O5", "multiplicity: what a loop evaluates once is emitted before the generated loop header, what it evaluates per iteration inside the loop", floor=4)
    seen_loops = 0
    for b in F.bodies_in(["src/mir/lower.rs", "src/mir/lower/match_expr.rs"]):
        if not b.mir or "Lowerer" not in b.path:
            continue
        if not any(hir.last(mir.callee(t)) == "new_block" for _, t in mir.calls(b)):
            continue
        defs = mir.Defs(b)
        regs = loop_regions(b, defs)
        if not regs:
            continue
        seen_loops += 1
        spec = MULT.get(b.path)
        if spec is None:
            r.note("loop emitted by %s has no multiplicity table entry (not checked)" % b.path)
            continue
        dom = mir.dominators(b)
        for sel, (callee, how) in sorted(spec.items()):
            k = select_param(b, sel)
            if k is None:
                r.missing("%s parameter %s" % (hir.last(b.path), sel))
                continue
            ev = events(b, defs, callee, k)
            key = "%s: %s(%s) %s" % (hir.last(b.path), callee, sel, how)
            inside = [e for e in ev if any(e in reg for _, _, reg in regs)]
            r.inst(key, {"fn": hir.last(b.path), "child": sel, "expected": how, "visits": len(ev), "inside_loop": len(inside)})
            if not ev:
                r.bad(b.path, key, relfile(b.file), b.line, "the %s child is never visited" % sel)
            elif how == "each" and len(inside) != len(ev):
                e = [x for x in ev if x not in inside][0]
                r.bad(b.path, key, relfile(b.file), b.blocks[e]["term"]["line"],
                      "this sub-expression must be evaluated on every iteration but is emitted outside the generated loop (between the header block and the back-edge jump): it runs once")
            elif how == "once" and (inside or not all(any(e in dom[nbi] for e in ev) for nbi, _, _ in regs)):
                e = (inside or ev)[0]
                r.bad(b.path, key, relfile(b.file), b.blocks[e]["term"]["line"],
                      "this sub-expression must be evaluated once, before the loop, but is emitted inside the generated loop (after the header block): its side effects happen once per iteration (plus one)")
    if seen_loops < 2:
        r.missing("the two loop emitters r#while / r#for (found %d methods with a generated loop)" % seen_loops)
    return r


LOOKUPS = {"find", "rfind", "find_map", "position", "rposition", "get", "get_mut", "index", "nth", "last", "first", "binary_search", "binary_search_by",
           "binary_search_by_key", "remove", "swap_remove", "pop", "max_by_key", "min_by_key", "max_by", "min_by", "sort", "sort_by", "sort_by_key",
           "sort_unstable", "sort_unstable_by", "sort_unstable_by_key", "rev", "next_back", "skip", "step_by", "dedup", "retain", "drain"}
O6_VISITS = {"expr", "stmt", "block", "block_expr"}


def rule_o6(F):
    """Source order: a sub-expression that is one of several children of an AST node (fields of a record literal, elements, arguments,
    statements, arms) reaches its visit by TRAVERSING the node's own child list, never by looking it up (by name, by index, in the order
    of some other table such as the fields of the record's type)."""
    r = RuleResult("C08.O6", "children are visited by traversing the AST node's own list, not by lookup in it", floor=12)
    for b in F.bodies_in(["src/mir/lower.rs", "src/mir/lower/match_expr.rs"]):
        if not b.mir:
            continue
        defs = None
        for bi, t in mir.calls(b):
            nm = hir.last(mir.callee(t))
            if nm not in O6_VISITS or "Lowerer" not in mir.callee(t):
                continue
            defs = defs or mir.Defs(b)
            for a in t["args"][1:]:
                if not mir.is_place_op(a) or "ast::" not in b.mir["locals"][a[1][0]]["ty"]:
                    continue
                ch = [hir.last(c[2]) for c in mir.value_chain(b, defs, a[1][0])]
                n = sum(1 for k in r.instances if k.startswith("%s -> %s" % (hir.last(b.path), nm)))
                r.inst("%s -> %s #%d" % (hir.last(b.path), nm, n), {"fn": b.path, "line": t["line"], "visit": nm, "child_obtained_through": ch[:8]})
                bad = [x for x in ch if x in LOOKUPS]
                if bad:
                    r.bad(b.path, "%s of a child obtained through %s" % (nm, bad[0]), relfile(b.file), t["line"],
                          "the sub-expression passed to %s is selected with `%s` instead of being the current element of a traversal of the node's children: the children are evaluated in the order of whatever drives the lookup (e.g. the field order of the type), not in source order" % (nm, bad[0]))
    return r


def rule_o7(F):
    """Guards are tried in source order and only for the arms that can match: the chain of arms tried for a variant consists of that
    variant's own arms and the wildcard arms, in the order of the COMPLETE arm list (shared with C01.T7, which compares the predicate
    of the default chain with the wildcard part of the per-variant chains)."""
    from . import c01
    r = c01.rule_t7(F)
    r.rule = "C08.O7"
    r.desc = "match: the arms tried for a variant are selected from the complete arm list (own arms and wildcard arms, in source order)"
    for v in r.violations:
        v.rule = "C08.O7"
    return r


def rule_o8(F):
    """Only the selected arm runs: the machine code of a `match` dispatch selects a branch by EQUALITY with that branch's index.  A
    one-branch Switch emitted as `brif value` runs the arm for every non-zero discriminant (`match e { B(..) => .., _ => .. }` on a
    three-variant enum: the B arm and its guards run for C).  Shared with C01.T9."""
    from . import c01
    r = c01.rule_t9(F)
    r.rule = "C08.O8"
    r.desc = "codegen of Switch: a branch is taken only for its own index (only the selected match arm and its guards run)"
    for v in r.violations:
        v.rule = "C08.O8"
    return r


def rule_o9(F):
    """A compound assignment reads its target before evaluating its right-hand side.  `x op= rhs` is lowered as the assignment
    `x = x op rhs` (whose binary operator reads and stores the left operand first: O1 / O4) - or, if a path of `compound_assign`
    lowers the right-hand side itself, something on that path has read the target before.  Evaluated with vf/sx on all paths."""
    from .. import sx
    r = RuleResult("C08.O9", "compound assignment: the target is read before the right-hand side is lowered, on every path of compound_assign", floor=1)
    b = F.body(L + "compound_assign")
    if b is None or not b.hir:
        r.missing(L + "compound_assign")
        return r
    pname = (b.hir["params"][1].get("name") if len(b.hir["params"]) > 1 else None) or "c"
    opq = {p for p in F.paths() if p.startswith("mir::lower") and p != b.path and hir.last(p) in
           ("expr", "assign", "binop", "assign_to_var", "do_assign", "tmp", "emit_assign", "type_of", "convert", "path", "place", "undropped_tmp")}
    try:
        paths = sx.Exec(F, opaque=opq).paths(b.hir, {})
    except (sx.TooManyPaths, sx.Unknown) as e_:
        r.bad(b.path, "evaluation", relfile(b.file), b.line, "cannot evaluate compound_assign: %s" % e_)
        return r
    desugared = direct_ok = 0
    bad = []
    for res, evs in paths:
        if res == ("diverges",):
            continue
        evs = [e for e in evs if e[0] == "mcall"]
        rhs_i = [i for i, e in enumerate(evs) if e[1] in ("expr", "binop") and any(sx.mentions(a, pname) and ".expr" in str(sx.short(a, 200)) and not sx.find_ctors(a, "BinOp") for a in e[3])]
        whole = [e for e in evs if e[1] == "assign" and any(sx.find_ctors(a, "BinOp") for a in e[3])]
        if not rhs_i:
            if whole:
                c = sx.find_ctors(whole[0][3][-1], "BinOp")[0]
                left_is_target = len(c) >= 5 and bool(sx.find_ctors(c[2], "Path")) and ".path" in str(sx.short(c[2], 200))
                if left_is_target and ".expr" in str(sx.short(c[4], 80)):
                    desugared += 1
                    continue
            bad.append("a path neither desugars to `target = target op rhs` nor lowers the right-hand side (%s)" % [e[1] for e in evs][:6])
            continue
        first = rhs_i[0]
        read_before = any(e[1] in ("expr", "path", "place", "assign_to_var", "do_assign") and any(".path" in str(sx.short(a, 200)) for a in e[3]) for e in evs[:first])
        if read_before:
            direct_ok += 1
        else:
            bad.append("the right-hand side is lowered (%s) before anything has read the target" % evs[first][1])
    r.inst("compound_assign", {"paths": len(paths), "desugared_paths": desugared, "direct_paths_reading_the_target_first": direct_ok, "problems": sorted(set(bad))[:3]})
    for pr in sorted(set(bad)):
        r.bad(b.path, pr[:60], relfile(b.file), b.line,
              "%s: `x += { x = 10; 5 }` adds to the value the right-hand side left in x (15 instead of 6) - a compound assignment reads its target before evaluating its right-hand side" % pr)
    return r


def rule_o10(F):
    """Every operand that the language always evaluates is lowered on every path of the method that lowers its construct: a
    sub-expression parameter (`&Meta<ast::Expr>`) of a lowering method is handed to `expr` / `stmt` or to another lowering method on
    every path to the return.  The only way round it is an inspection of THAT operand that came out positive (`if let Some(b) =
    literal_of(l)`: a literal has no effects to lose).  For the short-circuit operators this is demanded of the left operand only -
    the right one is evaluated or not as the left one decides.  (A fold of `x && false` to `false` that looks only at the right
    operand drops the host calls in `x`.)"""
    r = RuleResult("C08.O10", "always-evaluated operands are lowered on every path of their lowering method (skipped only after an inspection of that very operand)", floor=8)
    bodies = [b for b in F.bodies_in(["src/mir/lower.rs", "src/mir/lower/match_expr.rs"]) if b.mir and "Lowerer" in b.path and "{closure" not in b.path and "::tests::" not in b.path]
    by = {b.path: b for b in bodies}
    for b in bodies:
        argc = b.mir.get("argc", 0)
        ls = b.mir["locals"]
        if argc < 2 or "Lowerer" not in str(ls[1].get("ty") or ""):
            continue
        eparams = [i for i in range(2, argc + 1) if str(ls[i].get("ty") or "").replace(" ", "") in ("&ast::Meta<ast::Expr>", "&parser::meta::Meta<ast::Expr>") or
                   (str(ls[i].get("ty") or "").startswith("&") and str(ls[i].get("ty") or "").endswith("Meta<ast::Expr>") and "Option" not in str(ls[i].get("ty")) and "[" not in str(ls[i].get("ty")))]
        if not eparams:
            continue
        if hir.last(b.path) in ("expr", "stmt"):
            continue        # the dispatchers themselves
        if "shortcircuit" in hir.last(b.path):
            eparams = eparams[:1]
        defs = mir.Defs(b)

        def roots(op):
            if not mir.is_place_op(op):
                return set()
            l = op[1][0]
            if 1 <= l <= argc:
                return {l}
            return {int(x[3:].split(".")[0]) for x in deps(b, defs, l) if x.startswith("arg") and x[3:].split(".")[0].isdigit()}
        rets = [bi for bi, blk in enumerate(b.blocks) if blk["term"]["k"] == "return"]
        for pidx in eparams:
            visits = set()
            for bi, t in mir.calls(b):
                c = mir.callee(t) or ""
                if not c.startswith("mir::lower::") or not t["args"]:
                    continue
                cb = by.get(c)
                takes_self = cb is not None and cb.mir.get("argc", 0) >= 1 and "Lowerer" in str(cb.mir["locals"][1].get("ty") or "") or hir.last(c) in ("expr", "stmt", "block")
                if takes_self and any(pidx in roots(a) for a in t["args"][1:]):
                    visits.add(bi)
            if not visits:
                continue        # the method does not lower this parameter at all (it only reads its type / span)
            # edges that are justified skips: the positive outcome of an inspection of this very operand
            cut = set()
            for bi, blk in enumerate(b.blocks):
                t = blk["term"]
                if t["k"] != "switch" or not mir.is_place_op(t["o"]):
                    continue
                subj = None
                flip = False
                for d in defs.whole_defs(t["o"][1][0]):
                    if d[2] == "assign" and d[3]["rv"]["k"] == "discr":
                        pl = d[3]["rv"]["p"]
                        rs = {int(x[3:].split(".")[0]) for x in deps(b, defs, pl[0], proj=list(pl[1:])) if x.startswith("arg") and x[3:].split(".")[0].isdigit()} if not (1 <= pl[0] <= argc) else {pl[0]}
                        subj = ("discr", rs, d[3]["rv"].get("ty") or "")
                    elif d[2] == "assign" and d[3]["rv"]["k"] == "un" and d[3]["rv"].get("op") == "Not" and mir.is_place_op(d[3]["rv"].get("o")):
                        subj = ("bool", roots(d[3]["rv"]["o"]), "bool")
                        flip = True
                    elif d[2] == "call":
                        subj = ("bool", set().union(*[roots(a) for a in d[3]["args"]]) if d[3]["args"] else set(), "bool")
                if subj is None or subj[1] - {1} != {pidx}:
                    continue
                tg = dict(t["targets"])
                if subj[0] == "discr" and "Option" in subj[2]:
                    pos = [tg.get(1)] if 1 in tg else [t["otherwise"]]
                elif subj[0] == "discr":
                    # a match on the kind of the operand itself (`match &function.node { Path(..) => .., Access(e, _) => self.expr(e) .. }`):
                    # the arms that name a kind have looked at it; the catch-all has not
                    pos = [e_ for _, e_ in t["targets"]]
                else:
                    pos = [t["otherwise"]] if not flip else [tg.get(0)]
                for e_ in pos:
                    if e_ is not None:
                        cut.add((bi, e_))
            seen, work = set(), [0]
            while work:
                x = work.pop()
                if x in seen or x in visits:
                    continue
                seen.add(x)
                for y in mir.succs(b.blocks[x]):
                    if (x, y) in cut or b.blocks[y].get("cleanup"):
                        continue
                    work.append(y)
            skipping = [x for x in rets if x in seen]
            name = ls[pidx].get("name") or "arg%d" % pidx
            r.inst("%s(%s)" % (hir.last(b.path), name), {"fn": b.path, "operand": name, "lowered_at_blocks": len(visits), "paths_that_skip_it": len(skipping), "excused_edges": len(cut)})
            if skipping:
                r.bad(b.path, "operand `%s` not lowered on some path" % name, relfile(b.file), b.line,
                      "%s can return without lowering its operand `%s` on a path where nothing was found out about that operand: whatever it calls is not evaluated "
                      "(`probe(1) && false` folded to `false` never calls `probe`)" % (hir.last(b.path), name))
    return r


def rules(ctx):
    F = ctx["F"]
    return [rule_o1(F), rule_o2(F), rule_o3(F), rule_o4(F), rule_o5(F), rule_o6(F), rule_o7(F), rule_o8(F), rule_o9(F), rule_o10(F)]
