"""CFG kernel over MIR-lite: successors, dominators, reachability,
call events and origin tracing of places."""


def term(block):
    return block["term"]


def succs(block, unwind=False):
    t = block["term"]
    k = t["k"]
    out = []
    if k == "goto":
        out.append(t["t"])
    elif k == "switch":
        out.extend(x[1] for x in t["targets"])
        out.append(t["otherwise"])
    elif k in ("call", "drop", "assert"):
        if t.get("t") is not None:
            out.append(t["t"])
        if unwind and t.get("unwind") is not None:
            out.append(t["unwind"])
    return out


def preds(body, unwind=False):
    n = len(body.blocks)
    p = [[] for _ in range(n)]
    for i, b in enumerate(body.blocks):
        for s in succs(b, unwind):
            p[s].append(i)
    return p


def reachable_from(body, start, unwind=False, stop=None):
    """Blocks reachable from block `start` (inclusive). `stop`: set of blocks
    not to traverse through (they are included but not expanded)."""
    seen = set()
    work = [start]
    while work:
        b = work.pop()
        if b in seen:
            continue
        seen.add(b)
        if stop and b in stop and b != start:
            continue
        work.extend(succs(body.blocks[b], unwind))
    return seen


def dominators(body, unwind=False):
    """dom[b] = set of blocks dominating b (normal edges only by default)."""
    n = len(body.blocks)
    if n == 0:
        return []
    reach = reachable_from(body, 0, unwind)
    pr = preds(body, unwind)
    full = set(reach)
    dom = [set(full) if i in reach else set() for i in range(n)]
    dom[0] = {0}
    changed = True
    order = sorted(reach)
    while changed:
        changed = False
        for b in order:
            if b == 0:
                continue
            ps = [p for p in pr[b] if p in reach]
            if not ps:
                new = {b}
            else:
                new = set(dom[ps[0]])
                for p in ps[1:]:
                    new &= dom[p]
                new.add(b)
            if new != dom[b]:
                dom[b] = new
                changed = True
    return dom


def callee(t):
    """Best name of the callee of a call terminator (resolved impl if known)."""
    f = t.get("f", {})
    return f.get("resolved") or f.get("def") or ""


def callee_def(t):
    f = t.get("f", {})
    return f.get("def") or ""


def calls(body, pred=None):
    """Yield (block index, terminator) for every call terminator."""
    for i, b in enumerate(body.blocks):
        t = b["term"]
        if t["k"] == "call":
            if pred is None or pred(t):
                yield i, t


def is_place_op(op):
    return isinstance(op, list) and op and op[0] in ("cp", "mv")


def op_local(op):
    """Local of an operand that is a bare local (no projection), else None."""
    if is_place_op(op) and len(op[1]) == 1:
        return op[1][0]
    return None


def op_const(op):
    if isinstance(op, list) and op and op[0] == "const":
        return op[1]
    return None


def proj_str(proj):
    out = []
    for e in proj:
        if e == "*":
            out.append("*")
        elif isinstance(e, list):
            if e[0] == "f":
                out.append(str(e[2]))
            elif e[0] == "v":
                out.append("as:" + str(e[1]))
            elif e[0] == "i":
                out.append("[_]")
            elif e[0] == "ci":
                out.append("[%d]" % e[1])
            elif e[0] == "sub" and len(e) >= 4 and not e[3] is None:
                out.append("[%d..]" % e[1])  # subslice pattern `[_, rest @ ..]`: rest starts at e[1]
            else:
                out.append(e[0])
        else:
            out.append(str(e))
    return out


class Defs:
    """Definition sites of locals in a body: local -> list of
    (block, index or 'term', kind, payload)."""

    def __init__(self, body):
        self.body = body
        self.defs = {}
        for bi, b in enumerate(body.blocks):
            for si, s in enumerate(b["stmts"]):
                if s["k"] == "assign":
                    p = s["p"]
                    self.defs.setdefault(p[0], []).append((bi, si, "assign", s))
                elif s["k"] == "setdiscr":
                    p = s["p"]
                    self.defs.setdefault(p[0], []).append((bi, si, "setdiscr", s))
            t = b["term"]
            if t["k"] == "call":
                d = t["dest"]
                self.defs.setdefault(d[0], []).append((bi, "term", "call", t))

    def whole_defs(self, local):
        """Definitions assigning the whole local (no projection on the lhs)."""
        out = []
        for d in self.defs.get(local, []):
            s = d[3]
            lhs = s["p"] if d[2] != "call" else s["dest"]
            if len(lhs) == 1:
                out.append(d)
        return out


TRANSPARENT_CALLS = (
    "std::ops::Deref::deref",
    "std::ops::DerefMut::deref_mut",
    "std::convert::AsRef::as_ref",
    "std::borrow::Borrow::borrow",
    "std::convert::Into::into",
    "std::convert::From::from",
    "std::clone::Clone::clone",
    "std::borrow::ToOwned::to_owned",
    "std::option::Option::<T>::as_ref",
    "std::option::Option::<T>::as_mut",
    "std::option::Option::<&T>::cloned",
    "std::option::Option::<&T>::copied",
    "std::convert::identity",
)


def origin(body, defs, place, depth=0, seen=None, through_calls=TRANSPARENT_CALLS):
    """Root descriptor of a place: a tuple
    (root, path) where root is 'arg<N>' | 'local<N>' (multi-def / user var) |
    'const:<text>' | 'call:<callee>' and path is a list of projection /
    call-step strings, outermost last.  Flow-insensitive over single-def
    temporaries; locals with several whole definitions are roots."""
    if seen is None:
        seen = set()
    local = place[0]
    proj = proj_str(place[1:])
    argc = body.mir["argc"]
    if 1 <= local <= argc:
        return ("arg%d" % local, proj)
    if local in seen or depth > 40:
        return ("local%d" % local, proj)
    seen = seen | {local}
    ds = defs.whole_defs(local)
    if len(ds) != 1:
        # user variable with several assignments, or none (e.g. only field-wise)
        nm = body.mir["locals"][local].get("name")
        return ("local%d%s" % (local, ":" + nm if nm else ""), proj)
    bi, si, kind, s = ds[0]
    if kind == "assign":
        rv = s["rv"]
        k = rv["k"]
        if k == "use":
            o = rv["o"]
            if is_place_op(o):
                r, p = origin(body, defs, o[1], depth + 1, seen, through_calls)
                return (r, p + proj)
            c = op_const(o)
            if c is not None:
                return ("const:" + str(c.get("text", c.get("fn", ""))), proj)
        elif k in ("ref", "rawptr"):
            r, p = origin(body, defs, rv["p"], depth + 1, seen, through_calls)
            return (r, p + ["&"] + proj)
        elif k == "cast":
            o = rv["o"]
            if is_place_op(o):
                r, p = origin(body, defs, o[1], depth + 1, seen, through_calls)
                return (r, p + proj)
            c = op_const(o)
            if c is not None:
                return ("const:" + str(c.get("text", c.get("fn", ""))), proj)
        elif k == "discr":
            r, p = origin(body, defs, rv["p"], depth + 1, seen, through_calls)
            return (r, p + ["discr"] + proj)
        elif k == "agg":
            # a field read out of a tuple built in place is the corresponding operand: (a, b).0 == a
            if rv.get("ak") == "tuple" and len(place) > 1 and isinstance(place[1], list) and place[1] and place[1][0] == "f" \
                    and isinstance(place[1][1], int) and place[1][1] < len(rv["ops"]):
                o = rv["ops"][place[1][1]]
                if is_place_op(o):
                    r, p = origin(body, defs, o[1], depth + 1, seen, through_calls)
                    return (r, p + proj_str(place[2:]))
                c = op_const(o)
                if c is not None:
                    return ("const:" + str(c.get("text", c.get("fn", ""))), proj_str(place[2:]))
            return ("agg:%s" % (rv.get("adt") or rv.get("ak")), proj)
        return ("local%d" % local, proj)
    if kind == "call":
        name = callee(s)
        dname = callee_def(s)
        if (dname in through_calls or name in through_calls) and s["args"]:
            a0 = s["args"][0]
            if is_place_op(a0):
                r, p = origin(body, defs, a0[1], depth + 1, seen, through_calls)
                short = dname.rsplit("::", 1)[-1]
                return (r, p + [short + "()"] + proj)
        return ("call:" + (name or "?"), proj)
    return ("local%d" % local, proj)


def normalize_path(path):
    """Drop reference/deref noise from an origin path so that two ways of
    reaching the same storage compare equal."""
    out = []
    for p in path:
        if p in ("*", "&", "deref()", "deref_mut()", "as_ref()", "borrow()"):
            continue
        out.append(p)
    return out


def origin_key(body, defs, place):
    r, p = origin(body, defs, place)
    return r + "".join("." + x for x in normalize_path(p))


def line_of(t):
    return t.get("line", 0)


# ---------------------------------------------------------------------------
# Gates: a switch on the discriminant of a Result/Option/ControlFlow that was
# produced (through map_err / ok_or_else / Try::branch ...) by a call.

GOOD_DISCR = {
    "ControlFlow": 0,  # Continue
    "Result": 0,       # Ok
    "Option": 1,       # Some
}


def value_chain(body, defs, local, depth=0, seen=None):
    """Calls a value passed through, newest first: list of (bb, callee)."""
    if seen is None:
        seen = set()
    if local in seen or depth > 30:
        return []
    seen.add(local)
    ds = defs.whole_defs(local)
    if len(ds) != 1:
        return []
    bi, si, kind, s = ds[0]
    if kind == "call":
        out = [(bi, callee(s), callee_def(s))]
        # follow the first place argument (receiver / the wrapped value)
        for a in s["args"]:
            if is_place_op(a):
                out += value_chain(body, defs, a[1][0], depth + 1, seen)
                break
        return out
    if kind == "assign":
        rv = s["rv"]
        if rv["k"] in ("use", "cast") and is_place_op(rv["o"]):
            return value_chain(body, defs, rv["o"][1][0], depth + 1, seen)
        if rv["k"] in ("ref", "discr"):
            return value_chain(body, defs, rv["p"][0], depth + 1, seen)
    return []


def type_family(ty):
    for fam in ("ControlFlow", "Result", "Option"):
        if ("::%s<" % fam) in ty or ty.startswith(fam + "<"):
            # outermost constructor decides
            head = ty.split("<", 1)[0]
            if head.endswith(fam):
                return fam
    return None


def gates(body, defs=None):
    """All discriminant switches with the chain of calls their scrutinee came
    from.  Each: dict(bb, chain, family, good, bad) where good/bad are target
    block lists."""
    defs = defs or Defs(body)
    out = []
    for bi, b in enumerate(body.blocks):
        t = b["term"]
        if t["k"] != "switch":
            continue
        l = op_local(t["o"])
        if l is None:
            continue
        ds = defs.whole_defs(l)
        if len(ds) != 1 or ds[0][2] != "assign" or ds[0][3]["rv"]["k"] != "discr":
            continue
        rv = ds[0][3]["rv"]
        fam = type_family(rv.get("ty", ""))
        chain = value_chain(body, defs, rv["p"][0])
        tg = dict((v, tb) for v, tb in t["targets"])
        good, bad = [], []
        if fam is not None:
            gv = GOOD_DISCR[fam]
            for v, tb in t["targets"]:
                (good if v == gv else bad).append(tb)
            # 'otherwise' covers the remaining variant(s)
            if gv not in tg:
                good.append(t["otherwise"])
            else:
                ob = body.blocks[t["otherwise"]]
                if not (ob["term"]["k"] == "unreachable" and not ob["stmts"]):
                    bad.append(t["otherwise"])
        out.append({"bb": bi, "chain": chain, "family": fam, "good": good, "bad": bad, "place": rv["p"]})
    return out


def gated_by(body, gate, target_bb):
    """target_bb is reachable only through the good edge of the gate."""
    good = set()
    for g in gate["good"]:
        good |= reachable_from(body, g)
    badr = set()
    for g in gate["bad"]:
        badr |= reachable_from(body, g)
    if not (target_bb in good and target_bb not in badr):
        return False
    # must-pass-through: with the success edges of the gate removed, the target cannot be reached from the entry at all (a path that
    # goes round the whole test - `if !cache.contains(key) { check()?; }` - reaches it without passing the gate)
    seen, work = set(), [0]
    while work:
        x = work.pop()
        if x in seen:
            continue
        seen.add(x)
        if x == target_bb:
            return False
        for sx in succs(body.blocks[x]):
            if x == gate["bb"] and sx in gate["good"]:
                continue
            work.append(sx)
    return True


def gated_through(body, defs, all_gates, gate, target_bb, depth=2):
    """gated_by, also through a relay value: `let r = match lookup() { Some(X{sig: Some(s), ..}) => Some(..), _ => None };
    let Some(..) = r else { return Err(..) };` - the target is behind the Some edge of the switch on `r`, and every place where `r`
    is given its good variant is itself behind the success edge of the gate.  `r` must be a plain local that is only ever assigned
    whole variants and is never borrowed mutably."""
    if gated_by(body, gate, target_bb):
        return True
    if depth <= 0:
        return False
    for r in all_gates:
        if r is gate or r["family"] is None or len(r["place"]) != 1 or not gated_by(body, r, target_bb):
            continue
        l = r["place"][0]
        ds = defs.whole_defs(l)
        if not ds or any(d[2] != "assign" or d[3]["rv"]["k"] != "agg" or d[3]["rv"].get("vidx") is None for d in ds):
            continue
        if any(s["k"] == "assign" and s["rv"]["k"] == "ref" and s["rv"].get("mut") and s["rv"]["p"][0] == l
               for b in body.blocks for s in b["stmts"]):
            continue
        goods = [d for d in ds if d[3]["rv"]["vidx"] == GOOD_DISCR[r["family"]]]
        if goods and all(gated_through(body, defs, all_gates, gate, d[0], depth - 1) for d in goods):
            return True
    return False


def find_gates_for_call(body, all_gates, call_bb):
    return [g for g in all_gates if any(c[0] == call_bb for c in g["chain"])]


def agg_sites(body, adt):
    """(bb, stmt) of aggregate constructions of the given ADT path."""
    for bi, b in enumerate(body.blocks):
        for s in b["stmts"]:
            if s["k"] == "assign" and s["rv"]["k"] == "agg" and s["rv"].get("adt") == adt:
                yield bi, s


def natural_loops(body):
    """List of (header, set of blocks) for every back edge u->h with h dominating u (normal edges)."""
    dom = dominators(body)
    pr = preds(body)
    loops = []
    for u, blk in enumerate(body.blocks):
        for h in succs(blk):
            if u < len(dom) and h in dom[u]:
                nodes = {h, u}
                work = [u]
                while work:
                    x = work.pop()
                    if x == h:
                        continue
                    for p in pr[x]:
                        if p not in nodes:
                            nodes.add(p)
                            work.append(p)
                loops.append((h, nodes))
    return loops


def loop_depth(body, bb, loops=None):
    loops = loops if loops is not None else natural_loops(body)
    heads = {h for h, nodes in loops if bb in nodes}
    return len(heads)


def bool_sim(body, atom_value, max_states=20000, start=0, env0=None, returns=None):
    """Which blocks can be reached when the comparison statements listed in `atom_value` ({(block, statement index): bool}, or
    {("call", block): bool} for the result of a boolean call) have the given outcomes?  A tiny path-sensitive interpreter over the boolean part of the MIR: it tracks locals holding known
    booleans through copies, `!`, `&` / `|` and the control flow of `&&` / `||`, follows a `switchInt` whose operand is known
    and explores both ways otherwise.  Returns the set of reachable block indices (normal edges only)."""
    blocks = body.blocks
    reached = set()
    seen = set()
    work = [(start, tuple(sorted((env0 or {}).items())))]
    n = 0
    while work and n < max_states:
        n += 1
        bi, envt = work.pop()
        key = (bi, envt)
        if key in seen:
            continue
        seen.add(key)
        reached.add(bi)
        env = dict(envt)
        blk = blocks[bi]
        for si, st in enumerate(blk["stmts"]):
            if st["k"] != "assign" or len(st["p"]) != 1:
                if st["k"] == "assign":
                    env.pop(st["p"][0], None)
                continue
            dst = st["p"][0]
            rv = st["rv"]
            val = None
            if (bi, si) in atom_value:
                val = atom_value[(bi, si)]
            elif rv["k"] == "use":
                c = op_const(rv["o"])
                if c is not None and c.get("v") in (0, 1, True, False) and "bool" in str(c.get("ty", "bool")):
                    val = bool(c.get("v"))
                elif is_place_op(rv["o"]) and len(rv["o"][1]) == 1:
                    val = env.get(rv["o"][1][0])
            elif rv["k"] == "un" and rv.get("op") in ("Not", "!"):
                o = rv.get("o") or rv.get("a")
                if is_place_op(o) and len(o[1]) == 1 and o[1][0] in env:
                    val = not env[o[1][0]]
            elif rv["k"] == "bin" and rv.get("op") in ("BitAnd", "BitOr"):
                vs = []
                for o in (rv["a"], rv["b"]):
                    c = op_const(o)
                    if c is not None and c.get("v") in (0, 1, True, False):
                        vs.append(bool(c.get("v")))
                    elif is_place_op(o) and len(o[1]) == 1:
                        vs.append(env.get(o[1][0]))
                    else:
                        vs.append(None)
                if rv["op"] == "BitAnd":
                    val = False if False in vs else (True if vs == [True, True] else None)
                else:
                    val = True if True in vs else (False if vs == [False, False] else None)
            if val is None:
                env.pop(dst, None)
            else:
                env[dst] = val
        t = blk["term"]
        nxt = []
        if t["k"] == "switch":
            o = t["o"]
            known = env.get(o[1][0]) if is_place_op(o) and len(o[1]) == 1 else None
            if known is None:
                nxt = [x for _, x in t["targets"]] + [t["otherwise"]]
            else:
                tg = dict((v, x) for v, x in t["targets"])
                nxt = [tg[int(known)]] if int(known) in tg else [t["otherwise"]]
        elif t["k"] == "call":
            if t.get("dest") and len(t["dest"]) == 1:
                if ("call", bi) in atom_value:
                    env[t["dest"][0]] = atom_value[("call", bi)]  # the outcome of a boolean call given as an atom
                else:
                    env.pop(t["dest"][0], None)
            nxt = [x for x in succs(blk)][:1] if t.get("target") is None else [t["target"]]
            nxt = [x for x in succs(blk) if not blocks[x].get("cleanup")]
        else:
            nxt = [x for x in succs(blk) if not blocks[x].get("cleanup")]
        if returns is not None and t["k"] == "return":
            returns.add(env.get(0))          # value of the return place if it is a known boolean (else None)
        frozen = tuple(sorted(env.items()))
        for x in nxt:
            work.append((x, frozen))
    return reached


def rv_locals(rv):
    """Locals mentioned by an rvalue (operands, aggregate fields, the place of a ref / discriminant read)."""
    out = []
    for k in ("o", "a", "b"):
        if k in rv and is_place_op(rv[k]):
            out.append(rv[k][1][0])
    for o in rv.get("ops", []) or []:
        if is_place_op(o):
            out.append(o[1][0])
    if "p" in rv and isinstance(rv["p"], list) and rv["p"]:
        out.append(rv["p"][0])
    return out


def back_calls(b, defs, local, depth=0, seen=None):
    """Blocks of the calls whose results a local (transitively) derives from."""
    if seen is None:
        seen = set()
    out = set()
    if local in seen or depth > 30:
        return out
    seen.add(local)
    for d in defs.defs.get(local, []):
        if d[2] == "call":
            out.add(d[0])
            for a in d[3]["args"]:
                if is_place_op(a):
                    out |= back_calls(b, defs, a[1][0], depth + 1, seen)
        elif d[2] == "assign":
            for x in rv_locals(d[3]["rv"]):
                out |= back_calls(b, defs, x, depth + 1, seen)
    return out


def decided_by(b, defs, dom, lookup_bb, target_bb):
    """Is there a branch, dominated by the call in lookup_bb and dominating target_bb, whose condition derives from that call's
    result and one of whose successors cannot reach target_bb?  (`if x.is_none() { return Err }`, `let Some(..) = .. else`,
    `match`, `?` - whatever the spelling, the lookup decides whether the target runs.)"""
    for si, blk in enumerate(b.blocks):
        t = blk["term"]
        if t["k"] != "switch" or si not in dom[target_bb] or lookup_bb not in dom[si]:
            continue
        l = op_local(t["o"])
        if l is None or lookup_bb not in back_calls(b, defs, l):
            continue
        # 'cannot reach the target' is meant within the same evaluation of the lookup: a later loop iteration passes the lookup again
        if any(s != target_bb and target_bb not in reachable_from(b, s, stop={lookup_bb}) for s in succs(blk)):
            return True
    return False


def ok_exits(body, variant="Ok"):
    """Blocks in which `Ok(..)` (or the given variant of a Result/Option) is written to the return place."""
    return [bi for bi, blk in enumerate(body.blocks) for st in blk["stmts"]
            if st["k"] == "assign" and st["p"] == [0] and st["rv"]["k"] == "agg" and st["rv"].get("variant") == variant]


def vacant_only_insertions(body, defs=None, dom=None):
    """Call blocks that put a NEW key into a map: VacantEntry::insert (vacant by construction), or a map `insert` that is decided by a
    preceding lookup of the same map (contains_key / get / entry)."""
    defs = defs or Defs(body)
    dom = dom or dominators(body)
    out = []
    lookups = [bi for bi, t in calls(body) if (callee_def(t) or "").split("::")[-1] in ("contains_key", "get", "get_mut", "entry", "get_key_value")]
    for bi, t in calls(body):
        d = callee_def(t) or ""
        if d.endswith("VacantEntry::<'a, K, V, A>::insert") or "VacantEntry" in d and d.endswith("::insert"):
            out.append(bi)
        elif d.split("::")[-1] == "insert" and ("Map" in d):
            if any(lb in dom[bi] and decided_by(body, defs, dom, lb, bi) for lb in lookups):
                out.append(bi)
    return out


_OK_IMPLIES = {}


def ok_implies(F, path, depth=0):
    """Names (last path segments) of the calls whose SUCCESS is implied when the crate function `path` returns Ok / Some: every
    success exit lies behind the good edge of a gate on that call's result, or is that call's result itself (possibly passed through
    map_err and the like).  Used to see through checking helpers (`fn check_signature(..) -> Result<..> { a()?; b() }`)."""
    key = (id(F), path)
    if key in _OK_IMPLIES:
        return _OK_IMPLIES[key]
    _OK_IMPLIES[key] = set()
    b = F.body(path) if path and F.has(path) else None
    if b is None or not b.mir or depth > 3:
        return set()
    defs = Defs(b)
    gs = gates(b, defs)

    def chain_names(chain):
        out = set()
        for c in chain:
            out.add(c[1].rsplit("::", 1)[-1])
            out.add(c[2].rsplit("::", 1)[-1])
            out |= ok_implies(F, c[1], depth + 1)
        return out

    exits = [(bi, set()) for bi in ok_exits(b, "Ok") + ok_exits(b, "Some")]
    for d in defs.defs.get(0, []):
        if d[2] == "call":
            if callee_def(d[3]).endswith("FromResidual::from_residual"):
                continue   # the failure exit of `?`
            ch = [(d[0], callee(d[3]), callee_def(d[3]))]
            for a in d[3]["args"]:
                if is_place_op(a):
                    ch += value_chain(b, defs, a[1][0])
                    break
            exits.append((d[0], chain_names(ch)))
        elif d[2] == "assign" and d[3]["rv"]["k"] in ("use", "cast") and is_place_op(d[3]["rv"]["o"]):
            ch = value_chain(b, defs, d[3]["rv"]["o"][1][0])
            if ch:
                exits.append((d[0], chain_names(ch)))
    result = None
    for bi, extra in exits:
        sset = set(extra)
        for g in gs:
            if g["family"] is not None and gated_by(b, g, bi):
                sset |= chain_names(g["chain"])
                sset.add(origin_key(b, defs, g["place"]))
        result = sset if result is None else (result & sset)
    _OK_IMPLIES[key] = result or set()
    return _OK_IMPLIES[key]


_ALWAYS_ERR = {}


def always_err(F, path, depth=0):
    """The crate function `path` never returns Ok / Some: every write of its return place is an `Err(..)` / `None`, the failure exit
    of `?`, or the result of another such function."""
    key = (id(F), path)
    if key in _ALWAYS_ERR:
        return _ALWAYS_ERR[key]
    _ALWAYS_ERR[key] = False
    b = F.body(path) if path and F.has(path) else None
    if b is None or not b.mir or depth > 2:
        return False
    defs = Defs(b)
    ds = defs.defs.get(0, [])
    ok = bool(ds)
    for d in ds:
        if d[2] == "call":
            if callee_def(d[3]).endswith("FromResidual::from_residual"):
                continue
            if always_err(F, callee(d[3]), depth + 1):
                continue
            ok = False
        elif d[2] == "assign":
            rv = d[3]["rv"]
            if rv["k"] == "agg" and rv.get("variant") in ("Err", "None"):
                continue
            ok = False
        else:
            ok = False
    _ALWAYS_ERR[key] = ok
    return ok


def callee_names_deep(F, b, depth=2, _seen=None):
    """last path segments of everything `b` calls, continued into the crate functions that have no other caller than `b` (pieces of
    `b` that were moved into private helpers) to the given depth"""
    _seen = _seen if _seen is not None else {b.path}
    out = set()
    for _, t in calls(b):
        for c in (callee(t), callee_def(t)):
            if c:
                out.add(c.rsplit("::", 1)[-1])
        c = callee(t) or callee_def(t)
        if depth > 0 and c and c not in _seen and F.has(c):
            cb = F.body(c)
            if cb is not None and cb.mir and len(_callers_of(F, c) - {b.path, c}) == 0:
                _seen.add(c)
                out |= callee_names_deep(F, cb, depth - 1, _seen)
    # closures of b
    for p in F.paths():
        if p.startswith(b.path + "::{closure") and p not in _seen:
            cb = F.body(p)
            if cb is not None and cb.mir:
                _seen.add(p)
                out |= callee_names_deep(F, cb, depth, _seen)
    return out


_CALLERS_OF = {}


def _callers_of(F, path):
    if id(F) not in _CALLERS_OF:
        _CALLERS_OF.clear()
        idx = {}
        for cb in F.all_bodies():
            if not cb.mir:
                continue
            owner = cb.path.split("::{closure")[0]
            for _, t in calls(cb):
                for c in (callee(t), callee_def(t)):
                    if c:
                        idx.setdefault(c, set()).add(owner)
        _CALLERS_OF[id(F)] = idx
    return _CALLERS_OF[id(F)].get(path, set())


def upvar_sources(F, b, defs, local, depth=0, seen=None):
    """If `local` of a closure body is read from the closure's environment (a captured variable), the places of the parent function
    that were captured: list of (parent body, parent Defs, parent local)."""
    out = []
    if "{closure" not in b.path or depth > 8:
        return out
    seen = seen if seen is not None else set()
    if local in seen:
        return out
    seen.add(local)
    idxs = set()
    for d in defs.defs.get(local, []):
        if d[2] != "assign":
            continue
        rv = d[3]["rv"]
        pl = rv.get("p") if rv["k"] in ("ref", "rawptr", "discr") else (rv["o"][1] if rv["k"] in ("use", "cast") and is_place_op(rv.get("o")) else None)
        if pl is None:
            for x in rv_locals(rv):
                out += upvar_sources(F, b, defs, x, depth + 1, seen)
            continue
        if pl[0] == 1:
            for x in pl[1:]:
                if isinstance(x, list) and x[0] == "f":
                    idxs.add(x[1])
                    break
        else:
            out += upvar_sources(F, b, defs, pl[0], depth + 1, seen)
    if idxs:
        parent = F.body(b.path.rsplit("::{closure", 1)[0])
        if parent is not None and parent.mir:
            pdefs = Defs(parent)
            for blk in parent.blocks:
                for st in blk["stmts"]:
                    if st["k"] == "assign" and st["rv"]["k"] == "agg" and st["rv"].get("ak") == "closure" and st["rv"].get("def") == b.path:
                        for ui in idxs:
                            if ui < len(st["rv"]["ops"]) and is_place_op(st["rv"]["ops"][ui]):
                                out.append((parent, pdefs, st["rv"]["ops"][ui][1][0]))
    return out


def back_call_names(F, b, defs, local):
    """last path segments of the calls a value derives from - in this body and, for captured variables of a closure, in its parent"""
    names = {(callee_def(b.blocks[x]["term"]) or "").rsplit("::", 1)[-1] for x in back_calls(b, defs, local)}
    work, seen = [local], set()
    # every local in the backward slice may itself be a captured variable
    while work:
        l = work.pop()
        if l in seen:
            continue
        seen.add(l)
        for pb, pdefs, pl in upvar_sources(F, b, defs, l):
            names |= back_call_names(F, pb, pdefs, pl)
        for d in defs.defs.get(l, []):
            if d[2] == "assign":
                work.extend(rv_locals(d[3]["rv"]))
            elif d[2] == "call":
                for a in d[3].get("args") or []:
                    if is_place_op(a):
                        work.append(a[1][0])
    return names
