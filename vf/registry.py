"""Pair every runtime registration (Function::new / new_generic with a literal
name) with the Rust body that implements it."""
import re

from . import hir


def fn_item_path(ty):
    """`fn(A) -> B {path}` -> path"""
    m = re.search(r"\{(.*)\}\s*$", ty or "")
    return m.group(1) if m else None


def registrations(F, files=("src/runtime/basic.rs", "src/runtime/io.rs")):
    out = []
    for b in F.bodies_in(list(files)):
        if not b.hir or b.def_kind != "Fn":
            continue
        ld = hir.LocalDefs(b.hir)
        for c in hir.nodes(b.hir["value"], "call"):
            d = hir.call_def(c) or ""
            if not (d.endswith("items::Function::new") or d.endswith("items::Function::new_generic")):
                continue
            name = hir.strip(c["args"][0])
            if name.get("k") != "lit":
                continue
            farg = hir.peel_refs(c["args"][3])
            body_path = None
            if farg.get("k") == "path":
                l = hir.res_local(farg)
                if l is not None and ld.get(l) and ld.get(l)[1] is not None:
                    init = hir.strip(ld.get(l)[1])
                    if init.get("k") == "constblock":
                        body_path = fn_item_path(init.get("ty"))
                    elif init.get("k") == "closure":
                        body_path = init.get("def")
                    else:
                        body_path = fn_item_path(init.get("ty"))
                else:
                    body_path = fn_item_path(farg.get("ty")) or hir.res_def(farg)
            elif farg.get("k") == "closure":
                body_path = farg.get("def")
            self_ty = None
            if body_path and body_path.startswith("<") and " as " in body_path:
                self_ty = body_path[1:body_path.index(" as ")]
            out.append({"name": name["v"], "body": body_path, "self_ty": self_ty, "in": b.path, "line": c["line"],
                        "generic": d.endswith("new_generic"), "file": b.file})
    return out
