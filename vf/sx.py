"""Forking evaluation of decision code (type-resolved HIR-lite) - successor of vf/symex.py for whole methods.

A rule that has to know *what a method does for one input of a finite domain* (which cranelift operation `FuncGen::instruction`
emits for `Instruction::Div { signed: true, .. }`, which lir instruction `binop` builds for `BinOp::Mod` on an unsigned integer)
cannot rely on how the method is written: the arm may be inline, in a helper, behind a tuple match, an `if` chain or a `let .. else`.
This module evaluates the body on the given (partly symbolic) arguments and returns EVERY path: at a branch whose condition is not
determined by the inputs the evaluation forks (re-execution with a choice sequence), opaque values of small field-less enums are
enumerated, calls of crate functions are followed (depth 4), every other call is recorded as an event with its evaluated receiver
and arguments and yields an opaque result that remembers where it came from.  Nothing of roto is executed; this is partial
evaluation of the syntax tree the compiler type-checked.
"""
from . import hir


class Unknown(Exception):
    pass


class Infeasible(Exception):
    pass


class TooManyPaths(Exception):
    pass


class _Return(Exception):
    def __init__(self, value):
        self.value = value


class _Break(Exception):
    def __init__(self, value):
        self.value = value


class _Continue(Exception):
    pass


class _Diverge(Exception):
    pass


class _Forked(Exception):
    pass


class Sym(str):
    """An opaque value; the text says where it came from (`operand(left)`), so data flow can be read off events."""


class Str(str):
    """A concrete string value (a string literal of the code, or a test vector handed in by a rule).  A handful of `str` / `Option`
    methods whose meaning is fixed by the standard library are evaluated on such values (starts_with, strip_prefix, rsplit_once ..)."""


def ctor(name, *args):
    return ("ctor", name) + tuple(args)


def is_ctor(v):
    return isinstance(v, tuple) and len(v) >= 2 and v[0] == "ctor"


def mentions(v, name):
    """does the (possibly nested) value mention the opaque atom `name`?"""
    if isinstance(v, Sym):
        import re
        return re.search(r"(?<![A-Za-z0-9_])%s(?![A-Za-z0-9_])" % re.escape(name), v) is not None
    if isinstance(v, tuple):
        return any(mentions(x, name) for x in v)
    return False


def short(v, n=60):
    if isinstance(v, Sym):
        return str(v)[:n]
    if is_ctor(v):
        return "%s(%s)" % (v[1], ", ".join(short(x, 24) for x in v[2:]))[:n]
    if isinstance(v, tuple):
        return "(%s)" % ", ".join(short(x, 24) for x in v)
    return repr(v)[:n]


TRANSPARENT = {"clone", "into", "to_owned", "as_ref", "borrow", "deref", "copied", "cloned", "as_mut", "borrow_mut", "deref_mut", "as_deref", "by_ref", "iter", "into_iter"}
PANICS = ("panicking::", "begin_panic", "::unreachable", "rt::panic", "core::panic", "std::panic", "process::abort", "process::exit")


class Machine:
    def __init__(self, ex, body_hir, depth=0):
        self.ex = ex
        self.body = body_hir
        self.env = {}
        self.depth = depth

    # ---- choices ---------------------------------------------------------------------------------
    def choose(self, n):
        return self.ex.choose(n)

    # ---- patterns --------------------------------------------------------------------------------
    def opaque_of(self, pat, base):
        """a value for a binding taken out of an opaque value: small field-less enums are enumerated"""
        ty = str(pat.get("ty") or "").lstrip("&").replace("mut ", "").strip()
        if ty == "bool":
            return bool(self.choose(2))
        vs = self.ex.enum_variants(ty)
        if vs:
            return vs[self.choose(len(vs))]
        return Sym(base)

    def bind(self, pat, val):
        """True / False / None (= cannot tell); bindings are made in all but the False case"""
        k = pat.get("k")
        if k == "bind":
            if isinstance(val, Sym) and val.startswith("?"):
                val = self.opaque_of(pat, val[1:] or pat.get("name"))
            self.env[pat["local"]] = val
            if pat.get("sub") is not None:
                return self.bind(pat["sub"], val)
            return True
        if k == "wild":
            return True
        if k == "pref":
            return self.bind(pat["pat"], val)
        if k == "ptuple":
            pats = pat["pats"]
            if isinstance(val, tuple) and not is_ctor(val) and len(val) == len(pats):
                res = True
                for p, v in zip(pats, val):
                    b = self.bind(p, v)
                    if b is False:
                        return False
                    if b is None:
                        res = None
                return res
            base = val[1:] if isinstance(val, Sym) and val.startswith("?") else short(val, 80)
            for i, p in enumerate(pats):
                self.bind(p, Sym("?%s.%d" % (base, i)))
            return None if any(self._refutable(p) for p in pats) else True
        if k in ("ppath", "pts", "pstruct"):
            name = hir.last(hir.res_def({"res": pat.get("res") or {}}) or "")
            subs = pat.get("pats") or []
            fields = pat.get("fields") or []
            if isinstance(val, Sym):
                base = val[1:] if val.startswith("?") else val
                for i, p in enumerate(subs):
                    self.bind(p, Sym("?%s.%d" % (base, i)))
                for f in fields:
                    self.bind(f[1], Sym("?%s.%s" % (base, f[0])))
                if self.ex.single_variant(pat):
                    return True
                return None
            if is_ctor(val):
                if val[1] != name:
                    return False
                payload = val[2:]
                if k == "pstruct" or (payload and all(isinstance(x, tuple) and len(x) == 2 and isinstance(x[0], str) and not is_ctor(x) for x in payload) and fields):
                    d = dict(payload)
                    res = True
                    for f in fields:
                        fname, fp = (f[0], f[1]) if isinstance(f, list) else (f.get("name"), f.get("pat"))
                        b = self.bind(fp, d.get(fname, Sym("?%s" % fname)))
                        if b is False:
                            return False
                        if b is None:
                            res = None
                    return res
                if len(subs) != len(payload):
                    for i, p in enumerate(subs):
                        self.bind(p, Sym("?%s.%d" % (name, i)))
                    return True
                res = True
                for p, v in zip(subs, payload):
                    b = self.bind(p, v)
                    if b is False:
                        return False
                    if b is None:
                        res = None
                return res
            if isinstance(val, str):
                return val == name
            return None
        if k == "plit":
            if isinstance(val, Sym):
                return None
            return val == pat.get("v")
        if k == "or":
            res = False
            for p in pat["pats"]:
                b = self.bind(p, val)
                if b is True:
                    return True
                if b is None:
                    res = None
            return res
        if k in ("pslice", "prange", "pguard", "other"):
            for n in hir.walk(pat):
                if n.get("k") == "bind":
                    self.env[n["local"]] = Sym("?" + str(n.get("name")))
            return None
        return None

    def _refutable(self, pat):
        k = pat.get("k")
        if k in ("bind",):
            return pat.get("sub") is not None and self._refutable(pat["sub"])
        if k == "wild":
            return False
        if k == "pref":
            return self._refutable(pat["pat"])
        if k == "ptuple":
            return any(self._refutable(p) for p in pat["pats"])
        if k in ("ppath", "pts", "pstruct"):
            return not self.ex.single_variant(pat) or any(self._refutable(p) for p in pat.get("pats") or [])
        return True

    def decide(self, b):
        """turn a three-valued match result into a decision (forking on None)"""
        if b is None:
            return self.choose(2) == 0
        return b

    # ---- expressions -----------------------------------------------------------------------------
    def truth(self, v):
        if isinstance(v, bool):
            return v
        return self.choose(2) == 0

    def ev(self, e):
        if e is None:
            return ()
        k = e.get("k")
        m = getattr(self, "ev_" + str(k), None)
        if m is None:
            # unknown construct: evaluate children for their events, value is opaque
            for v in e.values():
                if isinstance(v, dict) and "k" in v:
                    self.ev(v)
            return Sym("?" + str(k))
        return m(e)

    def ev_lit(self, e):
        if e.get("lk") == "str" and isinstance(e.get("v"), str):
            return Str(e["v"])
        return e.get("v")

    def _str_method(self, m, recv, args):
        """std `str` methods on concrete strings; returns (done, value)"""
        a = [x for x in args]
        if not all(isinstance(x, (Str, int)) or (isinstance(x, str) and len(x) == 1 and not isinstance(x, Sym)) for x in a):
            return False, None
        a0 = a[0] if a else None
        if m in ("starts_with", "ends_with", "contains") and len(a) == 1:
            return True, {"starts_with": recv.startswith(a0), "ends_with": recv.endswith(a0), "contains": a0 in recv}[m]
        if m == "strip_prefix" and len(a) == 1:
            return True, (ctor("Some", Str(recv[len(a0):])) if recv.startswith(a0) else "None")
        if m == "strip_suffix" and len(a) == 1:
            return True, (ctor("Some", Str(recv[:len(recv) - len(a0)])) if recv.endswith(a0) and a0 != "" else ("None" if a0 != "" else ctor("Some", recv)))
        if m in ("rsplit_once", "split_once") and len(a) == 1:
            i = recv.rfind(a0) if m == "rsplit_once" else recv.find(a0)
            if i < 0:
                return True, "None"
            return True, ctor("Some", (Str(recv[:i]), Str(recv[i + len(a0):])))
        if m in ("len",) and not a:
            return True, len(recv.encode("utf-8"))
        if m == "is_empty" and not a:
            return True, recv == ""
        if m in ("to_string", "to_owned", "as_str", "as_ref", "into", "clone", "borrow", "deref", "trim") and not a:
            return True, (Str(recv.strip()) if m == "trim" else recv)
        if m == "replace" and len(a) == 2:
            return True, Str(recv.replace(a[0], a[1]))
        return False, None

    def _option_method(self, m, recv, args):
        """Option combinators on values whose variant is known; returns (done, value)"""
        some = is_ctor(recv) and recv[1] == "Some" and len(recv) == 3
        none = recv == "None" and not isinstance(recv, (Sym, Str))
        if not (some or none):
            return False, None
        clos = [x for x in args if isinstance(x, tuple) and x and x[0] == "closure"]
        if m == "is_some" and not args:
            return True, some
        if m == "is_none" and not args:
            return True, none
        if m in ("unwrap_or", "unwrap_or_default") :
            return True, (recv[2] if some else (args[0] if args else Sym("?default")))
        if m == "map_or" and len(args) == 2 and len(clos) == 1:
            return True, (self._call_closure(clos[0], [recv[2]]) if some else args[0])
        if m in ("map", "and_then", "filter", "is_some_and") and len(args) == 1:
            if none:
                return True, (False if m == "is_some_and" else "None")
            if len(clos) == 1:
                v = self._call_closure(clos[0], [recv[2]])
            elif isinstance(args[0], tuple) and args[0] and args[0][0] == "fnitem":
                done, v = self._inline(args[0][1], [recv[2]], "fn")
                if not done:
                    return False, None
            else:
                return False, None
            if m == "map":
                return True, ctor("Some", v)
            if m == "and_then":
                return True, v
            if m == "is_some_and":
                return True, v
            if m == "filter":
                return True, (recv if v is True else "None" if v is False else Sym("?filter"))
        if m in ("cloned", "copied", "as_ref", "as_deref", "as_mut") and not args:
            return True, recv
        return False, None

    def ev_path(self, e):
        l = hir.res_local(e)
        if l is not None:
            return self.env.get(l, Sym(e["res"].get("name") or "local"))
        d = hir.res_def(e) or ""
        dk = ((e.get("res") or {}).get("dk") or "")
        if d and (dk.startswith("Const") or dk.startswith("AssocConst")) and "Ctor" not in dk and self.ex.F.has(d):
            cb = self.ex.F.body(d)
            if cb is not None and cb.hir and self.depth < self.ex.max_depth:
                return Machine(self.ex, cb.hir, self.depth + 1).ev(cb.hir["value"])     # the value of a constant item
        if d and (dk.startswith("Fn") or dk.startswith("AssocFn")) and self.ex.F.has(d):
            return ("fnitem", d)
        return hir.last(d) if d else Sym((e.get("res") or {}).get("text") or "?path")

    def ev_addr(self, e):
        return self.ev(e["e"])

    def ev_cast(self, e):
        return self.ev(e["e"])

    def ev_constblock(self, e):
        return Sym("const{%s}" % hir.last(e.get("def") or ""))

    def ev_un(self, e):
        v = self.ev(e["a"])
        op = e.get("op")
        if op == "*":
            return v
        if op == "!":
            if isinstance(v, bool):
                return not v
            return Sym("!(%s)" % short(v))
        if op == "-" and isinstance(v, int) and not isinstance(v, bool):
            return -v
        return Sym("%s(%s)" % (op, short(v)))

    def ev_bin(self, e):
        op = e.get("op")
        if op in ("&&", "||"):
            a = self.ev(e["a"])
            ta = self.truth(a)
            if (op == "&&" and not ta) or (op == "||" and ta):
                return ta
            b = self.ev(e["b"])
            return self.truth(b)
        a, b = self.ev(e["a"]), self.ev(e["b"])
        if op in ("==", "!="):
            if isinstance(a, Sym) or isinstance(b, Sym) or _has_sym(a) or _has_sym(b):
                if a == b and isinstance(a, Sym):
                    return op == "=="
                return Sym("%s %s %s" % (short(a), op, short(b)))
            return (a == b) if op == "==" else (a != b)
        if isinstance(a, int) and isinstance(b, int) and not isinstance(a, bool) and not isinstance(b, bool):
            try:
                return {"<": a < b, "<=": a <= b, ">": a > b, ">=": a >= b, "+": a + b, "-": a - b, "*": a * b}[op]
            except KeyError:
                pass
        return Sym("%s %s %s" % (short(a), op, short(b)))

    def ev_tup(self, e):
        return tuple(self.ev(x) for x in e["elems"])

    def ev_array(self, e):
        return ("ctor", "[]") + tuple(self.ev(x) for x in e["elems"])

    def ev_struct(self, e):
        d = hir.res_def({"res": e.get("path") or {}}) or ""
        if isinstance(e.get("base"), dict):
            self.ev(e["base"])
        return ("ctor", hir.last(d)) + tuple((f[0], self.ev(f[1])) for f in e["fields"])

    def ev_field(self, e):
        v = self.ev(e["e"])
        n = str(e.get("n"))
        if isinstance(v, tuple) and not is_ctor(v) and n.isdigit() and int(n) < len(v):
            return v[int(n)]
        if is_ctor(v):
            for x in v[2:]:
                if isinstance(x, tuple) and len(x) == 2 and x[0] == n and not is_ctor(x):
                    return x[1]
            if n.isdigit() and int(n) < len(v) - 2:
                return v[2 + int(n)]
        return Sym("%s.%s" % (short(v), n))

    def ev_index(self, e):
        v = self.ev(e["e"])
        i = self.ev(e["i"])
        return Sym("%s[%s]" % (short(v), short(i)))

    def ev_closure(self, e):
        return ("closure", id(e), e, dict(self.env))

    def _call_closure(self, cl, args):
        node = cl[2]
        saved = self.env
        self.env = dict(cl[3])
        self.env.update({k: v for k, v in saved.items() if k not in self.env})
        try:
            for p, v in zip(node.get("params") or [], list(args) + [Sym("?arg")] * 8):
                self.bind(p, v)
            try:
                return self.ev(node["body"])
            except _Return as r:
                return r.value
        finally:
            self.env = saved

    def _run_closure_args(self, args_nodes_vals):
        """closures handed to an opaque call (map, for_each, any ..): run each once on opaque arguments so that what they do is seen"""
        for v in args_nodes_vals:
            if isinstance(v, tuple) and v and v[0] == "closure":
                try:
                    self._call_closure(v, [Sym("?%s" % (hir.pat_bindings(p)[0][0] if hir.pat_bindings(p) else "arg")) for p in v[2].get("params") or []])
                except (_Break, _Continue):
                    pass

    def _inline(self, path, args, what):
        ex = self.ex
        if not path or self.depth >= ex.max_depth or not ex.F.has(path) or path in ex.opaque:
            return False, None
        cb = ex.F.body(path)
        if cb is None or not cb.hir or len(cb.hir.get("params") or []) != len(args):
            return False, None
        sub = Machine(ex, cb.hir, self.depth + 1)
        # a callee that gets nothing concrete is only followed if it is straight-line for us (a forwarding / packaging helper):
        # a fork inside it would be about things the question does not determine, so it is left opaque then
        blind = not any(_has_concrete(a) for a in args)
        saved_events = len(ex.events)
        outer_blind = ex.no_fork
        if blind:
            ex.no_fork = True
        elif any(isinstance(a, (Str, bool, int)) or is_ctor(a) for a in args):
            ex.no_fork = False      # a helper of a straight-line helper that is handed something definite again (`shortcircuit_binop(l, r, "and", 1)`)
        try:
            for p_, v in zip(cb.hir["params"], args):
                sub.bind(p_, v)
            try:
                val = sub.ev(cb.hir["value"])
            except _Return as r:
                val = r.value
            except (_Break, _Continue):
                val = Sym("?" + what)
        except _Forked:
            del ex.events[saved_events:]
            return False, None
        finally:
            ex.no_fork = outer_blind
        return True, val

    def ev_call(self, e):
        f = hir.strip(e["f"])
        d = hir.call_def(e) or ""
        dk = (f.get("res") or {}).get("dk") or ""
        if f.get("k") == "path" and hir.res_local(f) is not None:
            fv = self.env.get(hir.res_local(f))
            args = [self.ev(a) for a in e["args"]]
            if isinstance(fv, tuple) and fv and fv[0] == "closure":
                return self._call_closure(fv, args)
            self.ex.events.append(("call", f["res"].get("name"), tuple(args)))
            return Sym("%s(%s)" % (f["res"].get("name"), ", ".join(short(a, 30) for a in args)))
        args = [self.ev(a) for a in e["args"]]
        if any(p in d for p in PANICS):
            self.ex.events.append(("panic", hir.last(d), tuple(args)))
            raise _Diverge()
        if "Ctor" in dk:
            return ctor(hir.last(d), *args)
        if d.endswith("::branch") and "Try" in d:
            return ("try", args[0])
        if d.endswith("from_residual"):
            return args[0] if args else Sym("?residual")
        if args and (d.endswith("slice::<impl [T]>::into_vec") or d.endswith("::into_vec") or d.endswith("boxed::box_new") or d.endswith("Box::<T>::new") or d.endswith("box_assume_init_into_vec_unsafe") or d.endswith("write_box_via_move")):
            return args[-1] if d.endswith("write_box_via_move") else args[0]   # vec![..] / Box::new(..): the contents
        if hir.last(d) == "successors" and "iter" in d and len(args) == 2 and isinstance(args[1], tuple) and args[1] and args[1][0] == "closure":
            return ("successors", args[0], args[1])      # the chain first, f(first), f(f(first)), ..: walked by the adaptor that consumes it
        done, val = self._inline(d, args, hir.last(d))
        if done:
            return val
        self.ex.events.append(("call", hir.last(d), tuple(args)))
        self._run_closure_args(args)
        return Sym("%s(%s)" % (hir.last(d), ", ".join(short(a, 30) for a in args)))

    def ev_mcall(self, e):
        recv = self.ev(e["recv"])
        args = [self.ev(a) for a in e["args"]]
        m = e["m"]
        if isinstance(recv, Str):
            done, val = self._str_method(m, recv, args)
            if done:
                return val
        done, val = self._option_method(m, recv, args)
        if done:
            return val
        if m in TRANSPARENT and not args:
            return recv
        if isinstance(recv, tuple) and recv and recv[0] == "successors" and m in ("find_map", "find", "any") and len(args) == 1 \
                and isinstance(args[0], tuple) and args[0] and args[0][0] == "closure":
            return self._walk_successors(recv, m, args[0])
        if m == "or_else" and isinstance(recv, Sym) and len(args) == 1 and isinstance(args[0], tuple) and args[0] and args[0][0] == "closure" \
                and "Option<" in str(e.get("ty") or hir.strip(e["recv"]).get("ty") or ""):
            # lazily evaluated alternative of an opaque Option: the closure runs only when the receiver is None
            if self.choose(2) == 0:
                return recv
            return self._call_closure(args[0], [])
        d = e.get("def") or ""
        if any(p in d for p in PANICS):
            raise _Diverge()
        done, val = self._inline(d, [recv] + args, m)
        if done:
            return val
        if m in ("unwrap", "expect", "unwrap_or_default") and is_ctor(recv) and recv[1] in ("Some", "Ok") and len(recv) == 3:
            return recv[2]
        if m == "then_some" and isinstance(recv, bool) and len(args) == 1:
            return ctor("Some", args[0]) if recv else "None"
        self.ex.events.append(("mcall", m, recv, tuple(args)))
        self._run_closure_args(args)
        return Sym("%s.%s(%s)" % (short(recv, 40), m, ", ".join(short(a, 30) for a in args)))

    def _walk_successors(self, chain, m, g):
        """`successors(first, f).find_map(g)` is the loop `let mut x = first; while let Some(v) = x { if let Some(r) = g(v) { return
        Some(r) }; x = f(v) }; None` - walked like a loop (as many rounds as loops are unrolled), forking on what is not known"""
        x = chain[1]
        for _ in range(max(1, getattr(self.ex, "unroll", 1))):
            if x == "None" and not isinstance(x, (Sym, Str)):
                return False if m == "any" else "None"
            if is_ctor(x) and x[1] == "Some" and len(x) == 3:
                v = x[2]
            else:
                if self.choose(2) == 1:
                    return False if m == "any" else "None"
                v = Sym("some of %s" % short(x, 40))
            r = self._call_closure(g, [v])
            if m == "find_map":
                if is_ctor(r) and r[1] == "Some":
                    return r
                if not (r == "None" and not isinstance(r, (Sym, Str))) and self.choose(2) == 0:
                    return r
            else:
                if r is True or (r is not False and self.choose(2) == 0):
                    return True if m == "any" else ctor("Some", v)
            x = self._call_closure(chain[2], [v])
        return Sym("?successors")

    def ev_let(self, e):
        v = self.ev(e["init"])
        return self.decide(self.bind(e["pat"], v))

    def ev_if(self, e):
        c = self.ev(e["cond"])
        if self.truth(c):
            return self.ev(e["then"])
        if e.get("else") is not None:
            return self.ev(e["else"])
        return ()

    def ev_match(self, e):
        v = self.ev(e["e"])
        if e.get("src") == "TryDesugar" or (isinstance(v, tuple) and v and v[0] == "try"):
            inner = v[1] if (isinstance(v, tuple) and v and v[0] == "try") else v
            if is_ctor(inner) and inner[1] in ("Ok", "Some") and len(inner) == 3:
                return inner[2]
            if is_ctor(inner) and inner[1] in ("Err",) or inner == "None":
                raise _Return(inner)
            if isinstance(inner, Sym) and str(inner).startswith("residual of "):
                raise _Return(inner)       # what an inner `?` handed back is a failure: the outer `?` hands it on, it never succeeds
            if self.choose(2) == 0:
                return Sym("%s?" % short(inner))
            raise _Return(Sym("residual of %s" % short(inner)))
        # what earlier arms of THIS match have established about an opaque scrutinee: constructors whose (otherwise irrefutable)
        # pattern was refused, and the constructor of a pattern that matched but whose guard failed - so that
        # `Some(d) => .., None if g => .., None => ..` is not walked along the contradictory "not None, then None" path
        refuted, known = set(), None
        for arm in e["arms"]:
            saved = dict(self.env)
            b = self.bind(arm["pat"], v)
            if b is False:
                self.env = saved
                continue
            cn = self._simple_ctor(arm["pat"]) if b is None and isinstance(v, Sym) else None
            if cn is not None:
                if cn in refuted or (known is not None and cn != known):
                    self.env = saved
                    continue
                sibs = self._sibling_ctors(cn)
                if known == cn or (sibs is not None and all(x in refuted for x in sibs if x != cn)):
                    b = True
            if not self.decide(b):
                if cn is not None:
                    refuted.add(cn)
                self.env = saved
                continue
            g = arm.get("guard")
            if g is not None:
                gv = self.ev(g)
                if not self.truth(gv):
                    if cn is not None:
                        known = cn
                    self.env = saved
                    continue
            return self.ev(arm["body"])
        raise Infeasible()

    def _simple_ctor(self, pat):
        """name of the constructor if the pattern is `Ctor(irrefutable..)` (through `&` and `name @`), else None"""
        while pat.get("k") == "pref" or (pat.get("k") == "bind" and pat.get("sub") is not None):
            pat = pat["pat"] if pat.get("k") == "pref" else pat["sub"]
        if pat.get("k") not in ("ppath", "pts", "pstruct"):
            return None
        subs = list(pat.get("pats") or []) + [f[1] if isinstance(f, list) else f.get("pat") for f in pat.get("fields") or []]
        if any(self._refutable(p) for p in subs):
            return None
        d = hir.res_def({"res": pat.get("res") or {}}) or ""
        return d or None

    def _sibling_ctors(self, d):
        """all constructors of the type `d` is a constructor of (Option / Result, or an enum of the crate), else None"""
        n = hir.last(d)
        if n in ("Some", "None") and "option" in d.lower():
            pre = d.rsplit("::", 1)[0]
            return [pre + "::Some", pre + "::None"]
        if n in ("Ok", "Err") and "result" in d.lower():
            pre = d.rsplit("::", 1)[0]
            return [pre + "::Ok", pre + "::Err"]
        parent = d.rsplit("::", 1)[0] if "::" in d else ""
        adt = self.ex.F.adt(parent) if parent else None
        if adt is not None and adt.get("variants"):
            return [parent + "::" + x["name"] for x in adt["variants"]]
        return None

    def ev_block(self, e):
        for s in e.get("stmts") or []:
            self.stmt(s)
        if e.get("expr") is not None:
            return self.ev(e["expr"])
        return ()

    def ev_loop(self, e):
        # the body is walked `unroll` times (default once): enough to see what the second round of a path walker does with the state
        # the first round left behind
        for _ in range(max(1, getattr(self.ex, "unroll", 1))):
            try:
                self.ev(e["body"])
            except _Break as b:
                return b.value
            except _Continue:
                pass
        return Sym("?loop")

    def ev_ret(self, e):
        raise _Return(self.ev(e["e"]) if e.get("e") is not None else ())

    def ev_break(self, e):
        raise _Break(self.ev(e["e"]) if e.get("e") is not None else ())

    def ev_continue(self, e):
        raise _Continue()

    def ev_assign(self, e):
        v = self.ev(e["rhs"])
        lhs = hir.strip(e["lhs"])
        l = hir.res_local(lhs) if lhs.get("k") == "path" else None
        if l is not None:
            self.env[l] = v
        else:
            self.ev(lhs)
        return ()

    def ev_assignop(self, e):
        v = self.ev(e["rhs"])
        lhs = hir.strip(e["lhs"])
        l = hir.res_local(lhs) if lhs.get("k") == "path" else None
        if l is not None:
            self.env[l] = Sym("%s %s %s" % (short(self.env.get(l, Sym("?"))), e.get("op"), short(v)))
        return ()

    def stmt(self, s):
        k = s.get("k")
        if k == "letstmt":
            if s.get("init") is None:
                return
            v = self.ev(s["init"])
            b = self.bind(s["pat"], v)
            if s.get("els") is not None:
                if not self.decide(b):
                    self.ev(s["els"])
                    raise _Diverge()
            return
        if k == "semi":
            self.ev(s["e"])
            return
        self.ev(s)


def _has_concrete(v):
    if isinstance(v, Sym):
        return False
    if isinstance(v, tuple):
        if is_ctor(v):
            return True
        return any(_has_concrete(x) for x in v)
    if isinstance(v, tuple) and v and v[0] == "closure":
        return False
    return v != ()


def _has_sym(v):
    if isinstance(v, Sym):
        return True
    if isinstance(v, tuple):
        return any(_has_sym(x) for x in v)
    return False


class Exec:
    """ex = Exec(F); for result, events in ex.paths(body_hir, {param index: value}): ..."""

    def __init__(self, F, max_depth=4, max_paths=600, opaque=(), unroll=1):
        self.F = F
        self.unroll = unroll
        self.max_depth = max_depth
        self.max_paths = max_paths
        self.opaque = set(opaque)     # crate functions not to follow
        self.events = []
        self._choices = []
        self._arity = []
        self._pos = 0
        self._enum_cache = {}
        self.no_fork = False

    def choose(self, n):
        if self.no_fork:
            raise _Forked()
        if self._pos < len(self._choices):
            c = self._choices[self._pos]
        else:
            c = 0
            self._choices.append(0)
            self._arity.append(n)
        self._arity[self._pos] = n
        self._pos += 1
        return c

    def enum_variants(self, ty):
        """names of the variants of a small field-less enum of the crate, else None"""
        ty = ty.strip()
        if ty in self._enum_cache:
            return self._enum_cache[ty]
        out = None
        adt = self.F.adt(ty) if ty and "<" not in ty else None
        if adt and adt.get("kind", "enum") in ("enum", "Enum") and 1 < len(adt.get("variants") or []) <= 6 and all(not v.get("fields") for v in adt["variants"]):
            out = [v["name"] for v in adt["variants"]]
        self._enum_cache[ty] = out
        return out

    def single_variant(self, pat):
        """is the pattern's constructor the only one of its type (struct / single-variant enum)?"""
        d = hir.res_def({"res": pat.get("res") or {}}) or ""
        dk = ((pat.get("res") or {}).get("dk") or "")
        if "Struct" in dk or dk in ("Struct", "TyAlias", "SelfTyAlias") or "SelfTy" in dk:
            return True
        parent = d.rsplit("::", 1)[0] if "::" in d else ""
        adt = self.F.adt(parent) if parent else None
        if adt is not None:
            return len(adt.get("variants") or []) == 1
        adt = self.F.adt(d) if d else None
        return adt is not None and len(adt.get("variants") or []) == 1

    def paths(self, body_hir, param_values):
        out = []
        self._choices = []
        n = 0
        while True:
            n += 1
            if n > self.max_paths:
                raise TooManyPaths("more than %d paths" % self.max_paths)
            self._pos = 0
            self.no_fork = False
            self.events = []
            m = Machine(self, body_hir, 0)
            res = None
            feasible = True
            try:
                for i, p in enumerate(body_hir.get("params") or []):
                    v = param_values.get(i, Sym((hir.pat_bindings(p)[0][0] if hir.pat_bindings(p) else "param%d" % i)))
                    m.bind(p, v)
                try:
                    res = m.ev(body_hir["value"])
                except _Return as r:
                    res = r.value
            except _Diverge:
                res = ("diverges",)
            except Infeasible:
                feasible = False
            except (_Break, _Continue):
                res = Sym("?")
            except RecursionError:
                raise Unknown("recursion too deep")
            if feasible:
                out.append((res, list(self.events)))
            # next choice vector
            used = self._pos
            self._choices = self._choices[:used]
            self._arity = self._arity[:used]
            i = used - 1
            while i >= 0 and self._choices[i] >= self._arity[i] - 1:
                i -= 1
            if i < 0:
                break
            self._choices = self._choices[:i] + [self._choices[i] + 1]
            self._arity = self._arity[:i + 1]
        return out


def events_named(events, kind, name):
    return [e for e in events if e[0] == kind and e[1] == name]


def ints_in(v):
    """integer literals inside a value, in order"""
    out = []
    if isinstance(v, bool):
        return out
    if isinstance(v, int):
        return [v]
    if isinstance(v, tuple):
        for x in v:
            out += ints_in(x)
    return out


def find_ctors(v, name):
    """all constructor values called `name` inside a value"""
    out = []
    if is_ctor(v):
        if v[1] == name:
            out.append(v)
        for x in v[2:]:
            out += find_ctors(x, name)
    elif isinstance(v, tuple):
        for x in v:
            out += find_ctors(x, name)
    return out


def field_of(c, name):
    for x in c[2:]:
        if isinstance(x, tuple) and len(x) == 2 and x[0] == name and not is_ctor(x):
            return x[1]
    return None
