#!/bin/sh
# usage: run_seeds.sh  - applies every stored seeded change to /repo in turn, runs the check of its property, reverts.
# Prints one line per seed: CAUGHT / MISSED and the rules that fired. Exit 1 if any stored seed is missed.
V=$(cd "$(dirname "$0")/.." && pwd)
rc=0
for d in "$V"/seeded/*/; do
  n=$(basename "$d"); p=${n%%-*}
  out=$("$V/tools/try_seed.sh" "$d/patch.diff" "$p" 2>&1)
  if grep -q '"caught_by": \[\s*"-"' "$d/meta.json" 2>/dev/null || python3 -c "import json,sys; sys.exit(0 if json.load(open('$d/meta.json'))['checks']['caught_by']==['-'] else 1)" 2>/dev/null; then
    if echo "$out" | grep -q "^VIOLATION property=$p"; then echo "CAUGHT $n (was recorded as outside the decided clauses)"; else echo "NOT-CLAIMED $n (outside the decided clauses, see DESIGN 10)"; fi
    continue
  fi
  if echo "$out" | grep -q "^VIOLATION property=$p"; then
    rules=$(echo "$out" | grep -o " $p\.[A-Z][0-9a-z]* " | sort -u | tr -d '\n')
    echo "CAUGHT $n by$rules"
  else
    echo "MISSED $n"; rc=1
  fi
done
exit $rc
