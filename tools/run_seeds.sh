#!/bin/sh
# usage: run_seeds.sh  - applies every stored seeded change to /repo in turn, runs the check of its property, reverts.
# Prints one line per seed: CAUGHT / MISSED and the rules that fired. Exit 1 if any stored seed is missed.
V=$(cd "$(dirname "$0")/.." && pwd)
rc=0
for d in "$V"/seeded/*/; do
  n=$(basename "$d"); p=${n%%-*}
  out=$("$V/tools/try_seed.sh" "$d/patch.diff" "$p" 2>&1)
  if echo "$out" | grep -q "^VIOLATION property=$p"; then
    rules=$(echo "$out" | grep -o " $p\.[A-Z][0-9a-z]* " | sort -u | tr -d '\n')
    echo "CAUGHT $n by$rules"
  else
    echo "MISSED $n"; rc=1
  fi
done
exit $rc
