#!/bin/sh
# usage: rebase_patch.sh <patch> <old-base-commit>   - re-expresses a stored patch (made against an older /repo commit) against /repo HEAD:
# applied on a scratch worktree at the old base, committed there, cherry-picked onto HEAD (3-way merge), written back in place.
P="$1"; BASE="$2"; W=$(mktemp -d /tmp/rebase-XXXXXX)
git -C /repo worktree add -q --detach "$W" "$BASE" || exit 2
( cd "$W" && git apply "$P" && git add -A && git -c user.email=v@v -c user.name=v commit -q -m tmp ) || { echo "cannot apply on old base: $P"; git -C /repo worktree remove --force "$W"; exit 2; }
C=$(git -C "$W" rev-parse HEAD)
( cd "$W" && git checkout -q --detach $(git -C /repo rev-parse HEAD) && git -c user.email=v@v -c user.name=v cherry-pick -n "$C" >/dev/null 2>&1 ) 
if [ -n "$(git -C "$W" diff --name-only --diff-filter=U)" ]; then echo "CONFLICT: $P (left in $W)"; exit 1; fi
git -C "$W" diff --cached > "$P.new" && mv "$P.new" "$P" && echo "rebased $P"
git -C /repo worktree remove --force "$W"
