#!/bin/sh
# usage: try_seed.sh <patch.diff> <Cxx> [more props...]  - applies the patch to /repo, runs the checks, reverts
P="$1"; shift
cd /repo || exit 2
git apply --check "$P" || { echo "patch does not apply"; exit 2; }
git apply "$P"
for c in "$@"; do
  (cd /verif && VERIF_EVIDENCE_DIR=/tmp/seed-ev ./check "$c" 2>&1 | grep -E "^  |VIOLATION|^OK|ERROR|KNOWN" | cut -c1-260)
done
git -C /repo checkout -- . && git -C /repo status --short | head -3
