#!/bin/sh
# usage: confirm_seed.sh <worktree> : confirms (a) suite passes with patch, (b) demo fails with patch, (c) demo passes without.
W="$1"; export CARGO_NET_OFFLINE=true CARGO_TARGET_DIR=/tmp/seed-target
cd "$W" || exit 2
git checkout -q -- src macros 2>/dev/null
mkdir -p /tmp/seed-demo-hold && mv tests/verif_demo.rs /tmp/seed-demo-hold/$(basename $W).rs 2>/dev/null
git apply OUT/patch.diff || { echo "APPLY FAILED"; exit 2; }
S=$(cargo nextest run --workspace --no-fail-fast --test-threads 8 --offline 2>&1 | grep -E "tests run:" | tail -1)
echo "suite_with_patch: $S"
cp /tmp/seed-demo-hold/$(basename $W).rs tests/verif_demo.rs
D1=$(cargo test --offline --test verif_demo 2>&1 | grep -E "^test result|panicked|SIG|overflowed" | head -3 | tr '\n' ' ')
echo "demo_with_patch: $D1"
git checkout -q -- src macros
D2=$(cargo test --offline --test verif_demo 2>&1 | grep -E "^test result" | head -2 | tr '\n' ' ')
echo "demo_without_patch: $D2"
