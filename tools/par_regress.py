#!/usr/bin/env python3
"""Parallel regression of the checker itself (not a property check):
   par_regress.py [neutral] [seeds] [mutants] [-j N] [ids...]

neutral : every behaviour-preserving patch in /verif/neutral must leave all 20 checks silent      (SILENT / ALARM)
seeds   : every independently seeded change in /verif/seeded must be reported by its property      (CAUGHT / MISSED / NOT-CLAIMED)
mutants : every single-site mutant in vf/mutants/*.json must be reported by the named rule         (KILLED / SURVIVED)

Each worker owns a scratch copy of /repo under $TMPDIR (default /tmp) and its own fact cache (VERIF_CACHE), so nothing is
applied to /repo itself and workers do not evict each other's exports.  Scratch copies and caches are removed at the end."""
import glob
import json
import os
import queue
import shutil
import subprocess
import sys
import threading

VERIF = os.path.dirname(os.path.dirname(os.path.abspath(__file__)))
ALL = ["C%02d" % i for i in range(1, 21)]


def jobs_for(modes, sel):
    jobs = []
    if "neutral" in modes:
        for f in sorted(glob.glob(os.path.join(VERIF, "neutral", "*.diff"))):
            jobs.append({"kind": "neutral", "id": os.path.basename(f), "patch": f, "props": ALL})
    if "seeds" in modes:
        for d in sorted(glob.glob(os.path.join(VERIF, "seeded", "*"))):
            mp = os.path.join(d, "meta.json")
            if not os.path.exists(mp):
                continue
            meta = json.load(open(mp))
            cb = meta.get("checks", {}).get("caught_by") or []
            jobs.append({"kind": "seed", "id": os.path.basename(d), "patch": os.path.join(d, "patch.diff"), "props": [meta["property"]],
                         "not_claimed": cb == ["-"]})
    if "mutants" in modes:
        for f in sorted(glob.glob(os.path.join(VERIF, "vf", "mutants", "*.json"))):
            for m in json.load(open(f)):
                jobs.append({"kind": "mutant", "id": m["id"], "props": [m["property"]], "rule": m["rule"],
                             "edits": m.get("edits") or [{"file": m["file"], "old": m["old"], "new": m["new"]}]})
    if sel:
        jobs = [j for j in jobs if j["id"] in sel or any(p in sel for p in j["props"]) and j["kind"] != "neutral"]
    return jobs


def run_job(j, scratch, cache, evdir):
    subprocess.check_call(["rsync", "-a", "--delete", "--exclude", "target", "--exclude", ".git", "/repo/", scratch + "/"])
    if j.get("patch"):
        pr = subprocess.run(["patch", "-p1", "-s", "--no-backup-if-mismatch", "-d", scratch, "-i", j["patch"]], stdout=subprocess.PIPE, stderr=subprocess.STDOUT, text=True)
        if pr.returncode != 0:
            return "N/A", ["patch does not apply: " + pr.stdout[-160:].replace("\n", " ")]
    else:
        for e in j["edits"]:
            p = os.path.join(scratch, e["file"])
            src = open(p).read()
            if src.count(e["old"]) != 1:
                return "N/A", ["pattern occurs %d times in %s" % (src.count(e["old"]), e["file"])]
            open(p, "w").write(src.replace(e["old"], e["new"]))
    env = dict(os.environ, VERIF_REPO=scratch, VERIF_EVIDENCE_DIR=evdir, VERIF_CACHE=cache, VERIF_TIER="quick", VERIF_NO_SELFTEST="1")
    fired, broken = [], []
    for p in j["props"]:
        r = subprocess.run([os.path.join(VERIF, "check"), p], env=env, stdout=subprocess.PIPE, stderr=subprocess.STDOUT, text=True)
        lines = [l.strip()[:230] for l in r.stdout.splitlines() if l.startswith("  ") and " %s." % p in l]
        if r.returncode == 2 or (r.returncode != 0 and "VIOLATION" not in r.stdout):
            broken.append("%s: exit %d %s" % (p, r.returncode, r.stdout[-300:].replace("\n", " | ")))
        elif r.returncode == 1:
            fired += lines or ["VIOLATION property=%s" % p]
    if j["kind"] == "neutral":
        if broken:
            return "BROKEN", broken
        return ("ALARM", fired) if fired else ("SILENT", [])
    if broken:
        return "BROKEN", broken
    if j["kind"] == "seed":
        if j.get("not_claimed"):
            return ("CAUGHT (recorded as not claimed)", fired[:1]) if fired else ("NOT-CLAIMED", [])
        return ("CAUGHT", fired[:2]) if fired else ("MISSED", [])
    if fired and any(j["rule"] in l for l in fired):
        return "KILLED", [l for l in fired if j["rule"] in l][:1]
    if fired:
        return "KILLED-by-other-rule", fired[:1]
    return "SURVIVED", []


def main():
    args = sys.argv[1:]
    n = 5
    if "-j" in args:
        i = args.index("-j")
        n = int(args[i + 1])
        del args[i:i + 2]
    modes = [a for a in args if a in ("neutral", "seeds", "mutants")] or ["neutral", "seeds", "mutants"]
    sel = set(a for a in args if a not in ("neutral", "seeds", "mutants"))
    jobs = jobs_for(modes, sel)
    q = queue.Queue()
    for j in jobs:
        q.put(j)
    tmp = os.environ.get("TMPDIR", "/tmp")
    results = {}
    lock = threading.Lock()

    def worker(i):
        scratch = os.path.join(tmp, "roto-par-%d-%d" % (os.getpid(), i))      # unique per run: two regressions may run at once
        cache = os.path.join(VERIF, ".cache", "par-%d-%d" % (os.getpid(), i))
        evdir = os.path.join(tmp, "roto-par-ev-%d-%d" % (os.getpid(), i))
        os.makedirs(scratch, exist_ok=True)
        try:
            while True:
                try:
                    j = q.get_nowait()
                except queue.Empty:
                    return
                try:
                    verdict, lines = run_job(j, scratch, cache, evdir)
                except Exception as e:  # noqa
                    verdict, lines = "BROKEN", [repr(e)]
                with lock:
                    results[(j["kind"], j["id"])] = verdict
                    print("%-8s %-52s %s" % (j["kind"], j["id"], verdict), flush=True)
                    for l in lines:
                        print("         " + l, flush=True)
        finally:
            shutil.rmtree(scratch, ignore_errors=True)
            shutil.rmtree(evdir, ignore_errors=True)
            shutil.rmtree(cache, ignore_errors=True)
    ts = [threading.Thread(target=worker, args=(i,)) for i in range(n)]
    for t in ts:
        t.start()
    for t in ts:
        t.join()
    bad = 0
    for kind in ("neutral", "seed", "mutant"):
        rs = [v for (k, _), v in results.items() if k == kind]
        if not rs:
            continue
        counts = {}
        for v in rs:
            counts[v] = counts.get(v, 0) + 1
        print("%s: %d - %s" % (kind, len(rs), ", ".join("%s %d" % kv for kv in sorted(counts.items()))))
        bad += sum(c for v, c in counts.items() if v in ("ALARM", "MISSED", "SURVIVED", "BROKEN", "N/A"))
    return 1 if bad else 0


if __name__ == "__main__":
    sys.exit(main())
