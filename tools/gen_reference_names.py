#!/usr/bin/env python3
"""Writes vf/reference_names.json: path -> fingerprint (parent, argument types, return type) of every function of the reference tree
(/repo as it is now).  Used ONLY to recognise a function that was renamed or moved by a later edit (vf/facts.py: the facts of the
edited tree are normalised to the reference names before any rule reads them), never to decide anything."""
import json, os, sys
sys.path.insert(0, os.path.dirname(os.path.dirname(os.path.abspath(__file__))))
from vf import export, facts
F = facts.Facts(export.export_repo(), "roto", normalise=False)
out = {}
for b in F.all_bodies():
    fp = facts.fingerprint(b)
    if fp is not None:
        out[b.path] = fp
json.dump(out, open(os.path.join(export.VERIF, "vf", "reference_names.json"), "w"), indent=0, sort_keys=True)
print("reference names:", len(out))
