#!/usr/bin/env python3
"""neutral_brief.py <k> <worktree> <Cxx> <Cyy>  - prints the brief for a sub-agent that writes four BEHAVIOUR-PRESERVING refactorings
(used to look for false alarms of the checks; the agent knows nothing about /verif)."""
import json, os, sys
k, wt, pa, pb = sys.argv[1:5]
V = os.path.dirname(os.path.dirname(os.path.abspath(__file__)))
P = {json.loads(l)["id"]: json.loads(l) for l in open(os.path.join(V, "properties.jsonl"))}
def txt(i):
    p = P[i]
    return "  %s - %s\n  %s" % (p["id"], p.get("title"), p.get("statement") or p.get("description"))
print("""You are helping to evaluate a verification effort for the Rust project NLnetLabs/roto (a statically typed embedded scripting
language: parser, type checker, MIR/LIR lowering, Cranelift JIT, IR evaluator, runtime with registered Rust types/functions).
You have your OWN scratch git worktree of the repository at %(wt)s . Work ONLY inside that directory (never touch /repo or /verif,
never read /verif). Build and test offline: always prefix cargo with CARGO_NET_OFFLINE=true and use CARGO_TARGET_DIR=%(wt)s/target .
The test suite is: cargo nextest run --workspace --no-fail-fast --test-threads 4 --offline  (415 tests, all pass on the unmodified tree).

Two properties of roto that users rely on:

%(a)s

%(b)s

YOUR TASK: write FOUR independent refactorings (two in the code that implements the first property, two in the code that implements the
second) of the kind a maintainer makes on an ordinary day, each of which PRESERVES BEHAVIOUR EXACTLY - the properties must hold after
each of them exactly as before. Find the implementing code yourself by reading src/. Typical edits: extract a helper function or inline a
single-use helper; rename parameters/locals/private functions; `if let` <-> `match` <-> let-else; loop <-> iterator adaptor (find / any / all /
try_fold / filter); merge identical match arms into or-patterns or split them; early return <-> nested else; hoist a sub-expression into a
`let`; replace a hand-written table by an array of pairs + lookup (or back); move a private function to another impl block / make a free
function a method; change a private struct to store a precomputed value instead of its inputs; reorder independent statements or match arms
(only where order provably does not matter). Be bold about SHAPE (a reviewer should see a real restructuring, 20-120 changed lines each) and
strict about BEHAVIOUR: same results, same side effects in the same order, same errors and messages, same panics, same memory/ownership
behaviour, same public API. Each refactoring is a separate patch against the UNMODIFIED tree (they need not compose).

For each refactoring i = 1..4:
  - start from the unmodified tree (git checkout -- src macros), make the edit, run `cargo build`, `cargo clippy` (no new warnings),
    `cargo fmt --check` and the full test suite (must be 415 passed);
  - save it as OUT/n<i>.diff (`git diff` of src/ and macros/).
Finally write OUT/summary.json: a list of four objects {"file": "n<i>.diff", "property": "%(pa)s or %(pb)s", "what": "<functions touched and what was
restructured>", "why_equivalent": "<the argument that behaviour is unchanged, including order of side effects, panics and error messages>",
"suite": "<summary line of nextest>"} and leave the worktree clean (git checkout -- src macros). Do not commit anything.
If you are not SURE an edit preserves behaviour in every case, do not deliver it - pick another one. Report briefly what the four edits are.""" % {
    "wt": wt, "a": txt(pa), "b": txt(pb), "pa": pa, "pb": pb})
