#!/usr/bin/env python3
"""seed_brief.py <Cxx> <worktree>  - prints the brief given to an independent seeding sub-agent (property text + scratch worktree,
nothing from /verif except one line per EARLIER seeded change of that property so that the new one is somewhere else)."""
import glob, json, os, sys
prop, wt = sys.argv[1], sys.argv[2]
V = os.path.dirname(os.path.dirname(os.path.abspath(__file__)))
P = {json.loads(l)["id"]: json.loads(l) for l in open(os.path.join(V, "properties.jsonl"))}
p = P[prop]
earlier = []
for d in sorted(glob.glob(os.path.join(V, "seeded", prop + "-*"))):
    try:
        m = json.load(open(os.path.join(d, "meta.json")))
    except Exception:
        continue
    b = (m.get("breaks") or os.path.basename(d)).replace("\n", " ")
    earlier.append("- " + b[:260])
print("""You are helping to evaluate a verification effort for the Rust project NLnetLabs/roto (a statically typed embedded scripting
language: parser, type checker, MIR/LIR lowering, Cranelift JIT, IR evaluator, runtime with registered Rust types/functions).
You have your OWN scratch git worktree of the repository at %(wt)s . Work ONLY inside that directory (never touch /repo or /verif,
never read /verif). Build and test offline: always prefix cargo with CARGO_NET_OFFLINE=true and use CARGO_TARGET_DIR=%(wt)s/target .
The test suite is: cargo nextest run --workspace --no-fail-fast --test-threads 4 --offline  (415 tests, all pass on the unmodified tree).

The property under study (it is supposed to hold for EVERY input / program / schedule / history, not only for what the tests sample):

  %(id)s - %(title)s
  %(stmt)s

YOUR TASK: write ONE realistic change to the source of roto (src/ or macros/) - the kind of slip or well-meant refactoring/optimisation a
maintainer could really commit - that BREAKS this property while
  (1) the crate still compiles without new warnings, and
  (2) the existing test suite still passes completely (415 passed), and
  (3) the breakage needs something SPECIFIC to manifest: a particular interleaving, a fault at a particular point, a multi-step sequence
      of operations, an unusual input, or two cooperating sites that each look fine alone. NOT something ordinary use exposes at once.
Prefer subtle changes in places that are easy to overlook: a helper, a sibling implementation, one arm of a table, one path of many.
The change should look plausible in review (keep comments consistent with what the code pretends to do).

Earlier exercises already produced the following changes for this property; yours must be in a DIFFERENT place and of a DIFFERENT kind:
%(earlier)s

DELIVERABLES (all inside %(wt)s):
  - OUT/patch.diff        : `git diff` of your change to src/ (and macros/) only - NOT including the demo test.
  - tests/verif_demo.rs   : a demonstration as an integration test of the `roto` crate (cargo test --offline --test verif_demo) that
                            FAILS (assertion, panic, crash or hang guarded by a timeout) with your change and PASSES without it. Copy it to OUT/verif_demo.rs too.
  - OUT/meta.json         : {"summary": "<what the change does and why it breaks the property>", "needs": "<what it needs in order to manifest>",
                             "results": {"suite_with_patch": "<summary line of nextest>", "demo_with_patch": "<failing output line>", "demo_without_patch": "<passing line>"}}
  - OUT/oddities.md       : (optional) anything you noticed on the UNMODIFIED tree that itself looks like a violation of the property, with a reproducer if you have one.
Verify all three facts yourself before you finish: suite passes with the patch (demo file moved away while running the suite), demo fails with the patch,
demo passes on the unmodified tree (save your diff first: `git diff -- src macros > OUT/patch.diff; git checkout -- src macros; ...; git apply OUT/patch.diff`; do NOT use `git stash`: the stash is shared between worktrees of other people). Leave the worktree with your patch applied and the demo in tests/.
Do not commit anything. Report briefly what you changed and the three results.""" % {
    "wt": wt, "id": p["id"], "title": p.get("title"), "stmt": p.get("statement") or p.get("description"), "earlier": "\n".join(earlier) or "- (none)"})
