#!/usr/bin/env python3
"""Generates /verif/MANIFEST.json from the table below (keeps it valid)."""
import json
import os

VERIF = os.path.dirname(os.path.dirname(os.path.abspath(__file__)))

TRUST = ("rustc's name resolution, type checking, trait solver and MIR construction (nightly 1.97) on the same source and "
         "feature set as the stable build; the exporter tools/rotofacts; std / cranelift documented semantics")

# id -> (technique, level text, design ref, note)
CLAIMED = {}

NOT_APPLICABLE = {}


def load_table():
    import importlib.util
    spec = importlib.util.spec_from_file_location("claims", os.path.join(VERIF, "tools", "claims.py"))
    m = importlib.util.module_from_spec(spec)
    spec.loader.exec_module(m)
    return m.CLAIMED, m.NOT_APPLICABLE


def main():
    claimed, na = load_table()
    checks = []
    for pid in sorted(claimed):
        c = claimed[pid]
        # the rules currently implemented for the property, read from its module (ids and one-line descriptions live in the code)
        rule_ids = []
        try:
            import re
            src = open(os.path.join(VERIF, "vf", "props", pid.lower() + ".py")).read()
            rule_ids = sorted(set(re.findall(r'"(%s\.[A-Z][0-9]+[a-z]?)"' % pid, src)), key=lambda x: (x.split(".")[1][0], int(re.sub(r"\D", "", x.split(".")[1]) or 0), x))
        except OSError:
            pass
        note = re.sub(r"Partial: (structural )?clauses? [A-Z0-9, /\-]+( only)?\.?", "", c.get("note", "")).strip()
        note = ("Rules implemented: %s (what each decides: DESIGN.md §4/§9 and the `explanation` of the evidence file). " % ", ".join(rule_ids)) + note
        c = dict(c, note=note)
        checks.append({
            "property_id": pid,
            "quick_cmd": "./check %s" % pid,
            "thorough_cmd": "VERIF_TIER=thorough ./check %s" % pid,
            "evidence_file": "/verif/evidence/%s.json" % pid,
            "replay_cmd_template": "cat {path}",
            "engine": "rotofacts+vf",
            "level_claimed": {
                "category": "other",
                "text": c["level"],
                "design_ref": "DESIGN.md §4 " + pid,
            },
            "level_note": c.get("note", "") + " Trusted: " + TRUST,
            "technique": c["technique"],
        })
    man = {
        "version": 1,
        "setup_cmd": "sh tools/setup.sh",
        "hooks": {
            "guard": "nlnetlabs_roto_verif",
            "enable": "none needed: static analysis reads the unmodified source; no hook was added to /repo (guard reserved, unused)",
            "baseline_off_cmd": "cd /repo && cargo test --workspace --no-fail-fast --offline",
            "source_commits": [],
            "add_only": True,
        },
        "engines": [
            {"name": "rotofacts", "path": "tools/rotofacts", "serves_properties": sorted(claimed),
             "kind_free_text": "rustc_private driver (RUSTC_WORKSPACE_WRAPPER under cargo +nightly check) exporting type-resolved HIR, MIR CFGs with resolved callees, ADT/impl tables, Send/Sync and layout answers of rustc as JSON facts"},
            {"name": "vf", "path": "vf", "serves_properties": sorted(claimed),
             "kind_free_text": "Python rule library over the facts: table extraction, origin tracing, dominance / must-pass-through, guard-liveness and taint dataflow, call-graph reachability; fail-closed floors, known-findings by exact key, canary crate for non-vacuity"},
        ],
        "checks": checks,
        "notes": "All verdicts are static: nothing in /repo is executed. fix: commits in /repo are listed in known_findings.json (fixed).",
        "not_applicable": [{"property_id": k, "reason": v} for k, v in sorted(na.items())],
    }
    with open(os.path.join(VERIF, "MANIFEST.json"), "w") as fh:
        json.dump(man, fh, indent=1)
    print("MANIFEST.json: %d checks, %d not_applicable" % (len(checks), len(na)))


if __name__ == "__main__":
    main()
