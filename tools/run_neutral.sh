#!/bin/sh
# usage: run_neutral.sh  - applies every behaviour-preserving refactoring in /verif/neutral to /repo in turn, runs all 20
# checks, reverts. Every check must stay silent: a VIOLATION here is a false alarm of the checker. Exit 1 if any fires.
V=$(cd "$(dirname "$0")/.." && pwd)
ALL="C01 C02 C03 C04 C05 C06 C07 C08 C09 C10 C11 C12 C13 C14 C15 C16 C17 C18 C19 C20"
rc=0
for f in "$V"/neutral/*.diff; do
  out=$("$V/tools/try_seed.sh" "$f" $ALL 2>&1 | grep -v "^OK\|KNOWN")
  if [ -n "$out" ]; then echo "ALARM on $(basename $f)"; echo "$out" | cut -c1-240; rc=1; else echo "SILENT $(basename $f)"; fi
done
exit $rc
