#!/bin/sh
# Build the exporter and warm the dependency build (offline).
set -e
cd "$(dirname "$0")/.."
export CARGO_NET_OFFLINE=true
(cd tools/rotofacts && cargo build --release --offline)
python3 -m vf.export
