#!/bin/sh
# usage: try_patch.sh <abs patch.diff> <Cxx> [more props...]  - applies the patch to a scratch copy of /repo (never to /repo itself),
# runs the checks against the copy, removes the copy.
P="$1"; shift
V=$(cd "$(dirname "$0")/.." && pwd)
S=$(mktemp -d /tmp/roto-try-XXXXXX)
rsync -a --exclude target --exclude .git /repo/ "$S/"
if ! patch -p1 -s --no-backup-if-mismatch -d "$S" -i "$P" >/dev/null 2>&1; then echo "patch does not apply"; rm -rf "$S"; exit 2; fi
for c in "$@"; do
  (cd "$V" && VERIF_REPO="$S" VERIF_EVIDENCE_DIR="$S.ev" VERIF_CACHE="$V/.cache/try" ./check "$c" 2>&1 | grep -E "^  |VIOLATION|^OK|ERROR|rror" | grep -v KNOWN | cut -c1-280)
done
rm -rf "$S" "$S.ev"
