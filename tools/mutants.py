#!/usr/bin/env python3
"""Checker self-test: apply single-site mutants to a scratch copy of /repo and
require the named rule to fire.  usage: mutants.py [ids or property ids...]

Mutants live in vf/mutants/*.json: {id, property, file, old, new, rule, note}.
`old` must occur exactly once in `file` (else the mutant is reported as
not-applicable).  The scratch copy lives under $TMPDIR (default /tmp) and is
removed afterwards."""
import glob
import json
import os
import shutil
import subprocess
import sys
import tempfile

VERIF = os.path.dirname(os.path.dirname(os.path.abspath(__file__)))


def main():
    as_json = "--json" in sys.argv
    sel = set(a for a in sys.argv[1:] if a != "--json")
    muts = []
    for f in sorted(glob.glob(os.path.join(VERIF, "vf", "mutants", "*.json"))):
        muts.extend(json.load(open(f)))
    # the independently seeded changes stored under /verif/seeded are replayed like mutants (applied with patch(1) to the scratch copy)
    for d in sorted(glob.glob(os.path.join(VERIF, "seeded", "*"))):
        mp = os.path.join(d, "meta.json")
        if not os.path.exists(mp) or not os.path.exists(os.path.join(d, "patch.diff")):
            continue
        meta = json.load(open(mp))
        cb = meta.get("checks", {}).get("caught_by") or []
        muts.append({"id": "seed:" + os.path.basename(d), "property": meta["property"], "patch": os.path.join(d, "patch.diff"),
                     "rule": (cb[0] if cb and cb[0] != "-" else ""), "not_claimed": cb == ["-"]})
    if sel:
        muts = [m for m in muts if m["id"] in sel or m["property"] in sel]
    scratch = tempfile.mkdtemp(prefix="roto-mut-", dir=os.environ.get("TMPDIR", "/tmp"))
    evdir = tempfile.mkdtemp(prefix="roto-mut-ev-", dir=os.environ.get("TMPDIR", "/tmp"))
    try:
        subprocess.check_call(["rsync", "-a", "--exclude", "target", "--exclude", ".git", "/repo/", scratch + "/"])
        results = []
        for m in muts:
            if m.get("patch"):
                pr = subprocess.run(["patch", "-p1", "-s", "--no-backup-if-mismatch", "-d", scratch, "-i", m["patch"]],
                                    stdout=subprocess.PIPE, stderr=subprocess.STDOUT, text=True)
                if pr.returncode != 0:
                    subprocess.run(["patch", "-p1", "-s", "-R", "--no-backup-if-mismatch", "-d", scratch, "-i", m["patch"]], stdout=subprocess.DEVNULL, stderr=subprocess.DEVNULL)
                    subprocess.check_call(["rsync", "-a", "--exclude", "target", "--exclude", ".git", "/repo/src/", scratch + "/src/"])
                    results.append((m["id"], "N/A", pr.stdout[-200:]))
                    print("%-28s N/A (patch does not apply)" % m["id"])
                    continue
                env = dict(os.environ, VERIF_REPO=scratch, VERIF_EVIDENCE_DIR=evdir)
                r = subprocess.run([os.path.join(VERIF, "check"), m["property"]], env=env, stdout=subprocess.PIPE, stderr=subprocess.STDOUT, text=True)
                subprocess.run(["patch", "-p1", "-s", "-R", "--no-backup-if-mismatch", "-d", scratch, "-i", m["patch"]], stdout=subprocess.DEVNULL, stderr=subprocess.DEVNULL)
                out = r.stdout
                if m.get("not_claimed"):
                    verdict = "NOT-CLAIMED" if r.returncode == 0 else "KILLED (recorded as not claimed)"
                elif r.returncode == 2:
                    verdict = "BROKEN (does not compile / engine error)"
                elif r.returncode == 1 and "VIOLATION" in out:
                    verdict = "KILLED"
                else:
                    verdict = "SURVIVED"
                lines = [l for l in out.splitlines() if l.startswith("  ") and " %s." % m["property"] in l][:1]
                results.append((m["id"], verdict, lines))
                print("%-28s %s" % (m["id"], verdict))
                for l in lines:
                    print("      " + l.strip()[:220])
                continue
            edits = m.get("edits") or [{"file": m["file"], "old": m["old"], "new": m["new"]}]
            saved = {}
            bad = None
            for e in edits:
                p = os.path.join(scratch, e["file"])
                src = open(p).read()
                saved.setdefault(p, src)
                if src.count(e["old"]) != 1:
                    bad = "pattern occurs %d times in %s" % (src.count(e["old"]), e["file"])
                    break
                open(p, "w").write(src.replace(e["old"], e["new"]))
            if bad:
                for p, src in saved.items():
                    open(p, "w").write(src)
                results.append((m["id"], "N/A", bad))
                print("%-28s N/A (%s)" % (m["id"], bad))
                continue
            env = dict(os.environ, VERIF_REPO=scratch, VERIF_EVIDENCE_DIR=evdir)
            r = subprocess.run([os.path.join(VERIF, "check"), m["property"]], env=env, stdout=subprocess.PIPE, stderr=subprocess.STDOUT, text=True)
            for p, src in saved.items():
                open(p, "w").write(src)
            out = r.stdout
            if r.returncode == 2:
                verdict = "BROKEN (does not compile / engine error)"
            elif r.returncode == 1 and m["rule"] in out and "VIOLATION" in out:
                verdict = "KILLED"
            elif r.returncode == 1:
                verdict = "KILLED-by-other-rule"
            else:
                verdict = "SURVIVED"
            lines = [l for l in out.splitlines() if l.startswith("  ") and m["rule"] in l][:2]
            results.append((m["id"], verdict, lines))
            print("%-28s %s" % (m["id"], verdict))
            for l in lines:
                print("      " + l.strip()[:220])
            if verdict.startswith("BROKEN"):
                print(out[-1500:])
        killed = sum(1 for r in results if r[1].startswith("KILLED"))
        print("mutants: %d, killed: %d, survived: %d, n/a or broken: %d" % (
            len(results), killed, sum(1 for r in results if r[1] == "SURVIVED"),
            sum(1 for r in results if r[1] not in ("SURVIVED", "NOT-CLAIMED") and not r[1].startswith("KILLED"))))
        if as_json:
            print(json.dumps({"selftest": {"mutants": len(results), "killed": killed,
                                           "survived": [r[0] for r in results if r[1] == "SURVIVED"],
                                           "not_applicable_or_broken": [r[0] for r in results if r[1] not in ("SURVIVED", "NOT-CLAIMED") and not r[1].startswith("KILLED")],
                                           "seeded_changes_not_claimed": [r[0] for r in results if r[1] == "NOT-CLAIMED"],
                                           "ids": [r[0] for r in results]}}))
        return 0 if all(r[1] != "SURVIVED" for r in results) else 1
    finally:
        shutil.rmtree(scratch, ignore_errors=True)
        shutil.rmtree(evdir, ignore_errors=True)


if __name__ == "__main__":
    sys.exit(main())
