//! Minimal JSON value + writer (no dependencies).
use std::fmt::Write;

#[derive(Clone, Debug)]
pub enum J {
    Null,
    Bool(bool),
    Int(i128),
    Str(String),
    Arr(Vec<J>),
    Obj(Vec<(&'static str, J)>),
}

impl J {
    pub fn s<S: Into<String>>(s: S) -> J {
        J::Str(s.into())
    }
    pub fn obj() -> J {
        J::Obj(Vec::new())
    }
    pub fn put(&mut self, k: &'static str, v: J) {
        if let J::Obj(o) = self {
            o.push((k, v));
        }
    }
    pub fn with(mut self, k: &'static str, v: J) -> J {
        self.put(k, v);
        self
    }
    pub fn write(&self, out: &mut String) {
        match self {
            J::Null => out.push_str("null"),
            J::Bool(b) => out.push_str(if *b { "true" } else { "false" }),
            J::Int(i) => {
                let _ = write!(out, "{}", i);
            }
            J::Str(s) => write_str(s, out),
            J::Arr(a) => {
                out.push('[');
                for (i, x) in a.iter().enumerate() {
                    if i > 0 {
                        out.push(',');
                    }
                    x.write(out);
                }
                out.push(']');
            }
            J::Obj(o) => {
                out.push('{');
                for (i, (k, v)) in o.iter().enumerate() {
                    if i > 0 {
                        out.push(',');
                    }
                    write_str(k, out);
                    out.push(':');
                    v.write(out);
                }
                out.push('}');
            }
        }
    }
}

fn write_str(s: &str, out: &mut String) {
    out.push('"');
    for c in s.chars() {
        match c {
            '"' => out.push_str("\\\""),
            '\\' => out.push_str("\\\\"),
            '\n' => out.push_str("\\n"),
            '\r' => out.push_str("\\r"),
            '\t' => out.push_str("\\t"),
            c if (c as u32) < 0x20 => {
                let _ = write!(out, "\\u{:04x}", c as u32);
            }
            c => out.push(c),
        }
    }
    out.push('"');
}

impl From<&str> for J {
    fn from(s: &str) -> J {
        J::Str(s.to_string())
    }
}
impl From<String> for J {
    fn from(s: String) -> J {
        J::Str(s)
    }
}
impl From<bool> for J {
    fn from(b: bool) -> J {
        J::Bool(b)
    }
}
impl From<usize> for J {
    fn from(b: usize) -> J {
        J::Int(b as i128)
    }
}
impl From<u32> for J {
    fn from(b: u32) -> J {
        J::Int(b as i128)
    }
}
impl From<Vec<J>> for J {
    fn from(b: Vec<J>) -> J {
        J::Arr(b)
    }
}
impl<T: Into<J>> From<Option<T>> for J {
    fn from(b: Option<T>) -> J {
        match b {
            Some(x) => x.into(),
            None => J::Null,
        }
    }
}
