//! MIR-lite: CFG of every body with resolved callees and named projections.
use crate::json::J;
use crate::loc;
use rustc_hir::def::DefKind;
use rustc_hir::def_id::LocalDefId;
use rustc_middle::mir::{
    self, AggregateKind, BasicBlock, Body, Operand, Place, ProjectionElem, Rvalue,
    StatementKind, TerminatorKind, UnwindAction,
};
use rustc_middle::ty::{self, Instance, Ty, TyCtxt, TypingEnv};

struct Cx<'a, 'tcx> {
    tcx: TyCtxt<'tcx>,
    body: &'a Body<'tcx>,
    env: TypingEnv<'tcx>,
}

pub fn body<'tcx>(tcx: TyCtxt<'tcx>, did: LocalDefId) -> Option<(J, usize)> {
    let kind = tcx.def_kind(did);
    let body: &Body<'tcx> = match kind {
        DefKind::Fn | DefKind::AssocFn | DefKind::Closure => {
            if !tcx.is_mir_available(did.to_def_id()) {
                return None;
            }
            tcx.optimized_mir(did.to_def_id())
        }
        DefKind::Const { .. } | DefKind::AssocConst { .. } | DefKind::Static { .. } => {
            tcx.mir_for_ctfe(did.to_def_id())
        }
        _ => return None,
    };
    let env = TypingEnv::post_analysis(tcx, did.to_def_id());
    let cx = Cx { tcx, body, env };
    let mut o = J::obj();
    o.put("argc", body.arg_count.into());
    // locals
    let mut names: Vec<Option<String>> = vec![None; body.local_decls.len()];
    for vdi in &body.var_debug_info {
        if let mir::VarDebugInfoContents::Place(p) = vdi.value {
            if p.projection.is_empty() {
                names[p.local.as_usize()] = Some(vdi.name.to_string());
            }
        }
    }
    let mut locals = Vec::new();
    for (l, d) in body.local_decls.iter_enumerated() {
        let mut lo = J::obj();
        lo.put("ty", J::s(d.ty.to_string()));
        if let Some(n) = &names[l.as_usize()] {
            lo.put("name", J::s(n.clone()));
        }
        locals.push(lo);
    }
    o.put("locals", J::Arr(locals));
    // upvar debuginfo for closures: name -> place on _1
    let mut upvars = Vec::new();
    for vdi in &body.var_debug_info {
        if let mir::VarDebugInfoContents::Place(p) = vdi.value {
            if !p.projection.is_empty() {
                upvars.push(J::Arr(vec![J::s(vdi.name.to_string()), cx.place(p)]));
            }
        }
    }
    if !upvars.is_empty() {
        o.put("upvars", J::Arr(upvars));
    }
    let mut blocks = Vec::new();
    for (_bb, data) in body.basic_blocks.iter_enumerated() {
        let mut bo = J::obj();
        if data.is_cleanup {
            bo.put("cleanup", true.into());
        }
        let mut stmts = Vec::new();
        for st in &data.statements {
            if let Some(mut s) = cx.stmt(st) {
                let l = loc(tcx, st.source_info.span);
                s.put("line", l.line.into());
                if st.source_info.span.from_expansion() {
                    s.put("exp", true.into());
                }
                stmts.push(s);
            }
        }
        bo.put("stmts", J::Arr(stmts));
        let term = data.terminator();
        let mut t = cx.term(term);
        let l = loc(tcx, term.source_info.span);
        t.put("line", l.line.into());
        if term.source_info.span.from_expansion() {
            t.put("exp", true.into());
            let m = crate::macros(term.source_info.span);
            if !m.is_empty() {
                t.put("mac", J::Arr(m.into_iter().map(J::s).collect()));
            }
        }
        bo.put("term", t);
        blocks.push(bo);
    }
    let n = blocks.len();
    o.put("blocks", J::Arr(blocks));
    Some((o, n))
}

fn bb(b: BasicBlock) -> J {
    J::Int(b.as_usize() as i128)
}

impl<'a, 'tcx> Cx<'a, 'tcx> {
    fn place(&self, p: Place<'tcx>) -> J {
        let mut v = vec![J::Int(p.local.as_usize() as i128)];
        let mut pty = mir::PlaceTy::from_ty(self.body.local_decls[p.local].ty);
        for elem in p.projection.iter() {
            let j = match elem {
                ProjectionElem::Deref => J::s("*"),
                ProjectionElem::Field(f, _) => {
                    let name = self.field_name(pty, f.as_usize());
                    J::Arr(vec![J::s("f"), f.as_usize().into(), J::s(name)])
                }
                ProjectionElem::Index(l) => J::Arr(vec![J::s("i"), l.as_usize().into()]),
                ProjectionElem::ConstantIndex { offset, from_end, .. } => J::Arr(vec![
                    J::s("ci"),
                    J::Int(offset as i128),
                    from_end.into(),
                ]),
                ProjectionElem::Subslice { from, to, from_end } => J::Arr(vec![
                    J::s("sub"),
                    J::Int(from as i128),
                    J::Int(to as i128),
                    from_end.into(),
                ]),
                ProjectionElem::Downcast(name, idx) => J::Arr(vec![
                    J::s("v"),
                    J::s(name.map(|n| n.to_string()).unwrap_or_default()),
                    idx.as_usize().into(),
                ]),
                ProjectionElem::OpaqueCast(_) => J::s("opaque"),
                ProjectionElem::UnwrapUnsafeBinder(_) => J::s("unwrapbinder"),
            };
            v.push(j);
            pty = pty.projection_ty(self.tcx, elem);
        }
        J::Arr(v)
    }

    fn field_name(&self, pty: mir::PlaceTy<'tcx>, idx: usize) -> String {
        match pty.ty.kind() {
            ty::Adt(adt, _) => {
                let vidx = pty.variant_index.unwrap_or(rustc_abi::FIRST_VARIANT);
                if adt.is_enum() && pty.variant_index.is_none() {
                    return idx.to_string();
                }
                let variant = adt.variant(vidx);
                variant
                    .fields
                    .iter()
                    .nth(idx)
                    .map(|f| f.name.to_string())
                    .unwrap_or_else(|| idx.to_string())
            }
            ty::Closure(did, _) => {
                // captured upvar name
                let names = self.tcx.closure_saved_names_of_captured_variables(*did);
                names
                    .iter()
                    .nth(idx)
                    .map(|s| s.to_string())
                    .unwrap_or_else(|| idx.to_string())
            }
            _ => idx.to_string(),
        }
    }

    fn constant(&self, c: &mir::ConstOperand<'tcx>) -> J {
        let ty = c.const_.ty();
        let mut o = J::obj();
        o.put("ty", J::s(ty.to_string()));
        if let ty::FnDef(did, args) = ty.kind() {
            o.put("fn", J::s(self.tcx.def_path_str(*did)));
            if !args.is_empty() {
                o.put("gargs", J::Arr(args.iter().map(|a| J::s(a.to_string())).collect()));
            }
            return J::Arr(vec![J::s("const"), o]);
        }
        if ty.is_integral() || ty.is_bool() || ty.is_char() {
            if let Some(si) = c.const_.try_eval_scalar_int(self.tcx, self.env) {
                let size = si.size();
                let bits = si.to_bits(size);
                let v: i128 = if ty.is_signed() {
                    size.sign_extend(bits) as i128
                } else {
                    bits as i128
                };
                o.put("v", J::Int(v));
            }
        }
        o.put("text", J::s(format!("{}", c.const_)));
        J::Arr(vec![J::s("const"), o])
    }

    fn op(&self, op: &Operand<'tcx>) -> J {
        match op {
            Operand::Copy(p) => J::Arr(vec![J::s("cp"), self.place(*p)]),
            Operand::Move(p) => J::Arr(vec![J::s("mv"), self.place(*p)]),
            Operand::Constant(c) => self.constant(c),
            #[allow(unreachable_patterns)]
            _ => J::Arr(vec![J::s("rtcheck")]),
        }
    }

    fn stmt(&self, st: &mir::Statement<'tcx>) -> Option<J> {
        match &st.kind {
            StatementKind::Assign(b) => {
                let (p, rv) = &**b;
                let mut o = J::obj().with("k", J::s("assign"));
                o.put("p", self.place(*p));
                o.put("rv", self.rvalue(rv));
                Some(o)
            }
            StatementKind::SetDiscriminant { place, variant_index } => Some(
                J::obj()
                    .with("k", J::s("setdiscr"))
                    .with("p", self.place(**place))
                    .with("v", variant_index.as_usize().into()),
            ),
            StatementKind::Intrinsic(i) => Some(
                J::obj()
                    .with("k", J::s("intrinsic"))
                    .with("text", J::s(format!("{:?}", i))),
            ),
            StatementKind::StorageDead(l) => Some(
                J::obj()
                    .with("k", J::s("dead"))
                    .with("l", l.as_usize().into()),
            ),
            StatementKind::StorageLive(l) => Some(
                J::obj()
                    .with("k", J::s("live"))
                    .with("l", l.as_usize().into()),
            ),
            _ => None,
        }
    }

    fn rvalue(&self, rv: &Rvalue<'tcx>) -> J {
        match rv {
            Rvalue::Use(op, ..) => J::obj().with("k", J::s("use")).with("o", self.op(op)),
            Rvalue::Repeat(op, _) => J::obj().with("k", J::s("repeat")).with("o", self.op(op)),
            Rvalue::Ref(_, bk, p) => J::obj()
                .with("k", J::s("ref"))
                .with("mut", matches!(bk, mir::BorrowKind::Mut { .. }).into())
                .with("p", self.place(*p)),
            Rvalue::ThreadLocalRef(d) => J::obj()
                .with("k", J::s("tls"))
                .with("def", J::s(self.tcx.def_path_str(*d))),
            Rvalue::RawPtr(k, p) => J::obj()
                .with("k", J::s("rawptr"))
                .with("mut", matches!(k, mir::RawPtrKind::Mut).into())
                .with("p", self.place(*p)),
            Rvalue::Cast(ck, op, ty) => J::obj()
                .with("k", J::s("cast"))
                .with("ck", J::s(format!("{:?}", ck)))
                .with("o", self.op(op))
                .with("ty", J::s(ty.to_string())),
            Rvalue::BinaryOp(bop, ops) => J::obj()
                .with("k", J::s("bin"))
                .with("op", J::s(format!("{:?}", bop)))
                .with("a", self.op(&ops.0))
                .with("b", self.op(&ops.1)),
            Rvalue::UnaryOp(uop, op) => J::obj()
                .with("k", J::s("un"))
                .with("op", J::s(format!("{:?}", uop)))
                .with("o", self.op(op)),
            Rvalue::Discriminant(p) => {
                let pty = p.ty(&self.body.local_decls, self.tcx).ty;
                J::obj()
                    .with("k", J::s("discr"))
                    .with("p", self.place(*p))
                    .with("ty", J::s(pty.to_string()))
            }
            Rvalue::Aggregate(kind, ops) => {
                let mut o = J::obj().with("k", J::s("agg"));
                match &**kind {
                    AggregateKind::Array(_) => o.put("ak", J::s("array")),
                    AggregateKind::Tuple => o.put("ak", J::s("tuple")),
                    AggregateKind::Adt(did, vidx, _, _, _) => {
                        o.put("ak", J::s("adt"));
                        let adt = self.tcx.adt_def(*did);
                        o.put("adt", J::s(self.tcx.def_path_str(*did)));
                        let variant = adt.variant(*vidx);
                        if adt.is_enum() {
                            o.put("variant", J::s(variant.name.to_string()));
                            o.put("vidx", vidx.as_usize().into());
                        }
                        o.put(
                            "fields",
                            J::Arr(
                                variant.fields.iter().map(|f| J::s(f.name.to_string())).collect(),
                            ),
                        );
                    }
                    AggregateKind::Closure(did, _) => {
                        o.put("ak", J::s("closure"));
                        o.put("def", J::s(self.tcx.def_path_str(*did)));
                    }
                    AggregateKind::RawPtr(..) => o.put("ak", J::s("rawptr")),
                    _ => o.put("ak", J::s("other")),
                }
                o.put("ops", J::Arr(ops.iter().map(|x| self.op(x)).collect()));
                o
            }
            Rvalue::CopyForDeref(p) => J::obj()
                .with("k", J::s("use"))
                .with("o", J::Arr(vec![J::s("cp"), self.place(*p)])),
            Rvalue::WrapUnsafeBinder(op, _) => {
                J::obj().with("k", J::s("use")).with("o", self.op(op))
            }
            #[allow(unreachable_patterns)]
            _ => J::obj().with("k", J::s("other")),
        }
    }

    fn callee(&self, func: &Operand<'tcx>) -> J {
        if let Some((did, args)) = func.const_fn_def() {
            let mut o = J::obj();
            o.put("def", J::s(self.tcx.def_path_str(did)));
            if !args.is_empty() {
                o.put("gargs", J::Arr(args.iter().map(|a| J::s(a.to_string())).collect()));
            }
            // rustc's layout of the (monomorphic) type argument of Layout::of::<T>() /
            // TypeId::of::<T>() / size_of::<T>(): the compiler's layout engine is the oracle
            let dp = self.tcx.def_path_str(did);
            if dp.ends_with("Layout::of") || dp.ends_with("TypeId::of") || dp.ends_with("mem::size_of") {
                if let Some(t) = args.types().next() {
                    use rustc_middle::ty::TypeVisitableExt;
                    if !t.has_param() && !t.has_aliases() {
                        let env = TypingEnv::fully_monomorphized();
                        if let Ok(l) = self.tcx.layout_of(env.as_query_input(t)) {
                            o.put(
                                "garg_layout",
                                J::Arr(vec![
                                    J::Int(l.size.bytes() as i128),
                                    J::Int(l.align.abi.bytes() as i128),
                                ]),
                            );
                        }
                    }
                }
            }
            // try resolving trait methods to their impl
            if matches!(self.tcx.def_kind(did), DefKind::Fn | DefKind::AssocFn) {
                if let Ok(Some(inst)) = Instance::try_resolve(self.tcx, self.env, did, args) {
                    let rdid = inst.def_id();
                    if rdid != did {
                        o.put("resolved", J::s(self.tcx.def_path_str(rdid)));
                    }
                    if let ty::InstanceKind::Virtual(..) = inst.def {
                        o.put("virtual", true.into());
                    }
                }
                // the impl/trait self type for associated fns
                if let Some(parent) = self.tcx.opt_parent(did) {
                    match self.tcx.def_kind(parent) {
                        DefKind::Trait => {
                            o.put("trait", J::s(self.tcx.def_path_str(parent)));
                        }
                        DefKind::Impl { .. } => {
                            let st = self.tcx.type_of(parent).instantiate_identity().skip_norm_wip();
                            o.put("impl_self", J::s(st.to_string()));
                        }
                        _ => {}
                    }
                }
            }
            o
        } else {
            J::obj().with("ind", self.op(func))
        }
    }

    fn unwind(&self, u: &UnwindAction) -> J {
        match u {
            UnwindAction::Cleanup(b) => bb(*b),
            _ => J::Null,
        }
    }

    fn term(&self, t: &mir::Terminator<'tcx>) -> J {
        match &t.kind {
            TerminatorKind::Goto { target } => {
                J::obj().with("k", J::s("goto")).with("t", bb(*target))
            }
            TerminatorKind::SwitchInt { discr, targets } => {
                let mut o = J::obj().with("k", J::s("switch"));
                o.put("o", self.op(discr));
                let dty: Ty<'tcx> = discr.ty(&self.body.local_decls, self.tcx);
                o.put("ty", J::s(dty.to_string()));
                let mut v = Vec::new();
                for (val, target) in targets.iter() {
                    v.push(J::Arr(vec![J::Int(val as i128), bb(target)]));
                }
                o.put("targets", J::Arr(v));
                o.put("otherwise", bb(targets.otherwise()));
                o
            }
            TerminatorKind::UnwindResume => J::obj().with("k", J::s("resume")),
            TerminatorKind::UnwindTerminate(_) => J::obj().with("k", J::s("terminate")),
            TerminatorKind::Return => J::obj().with("k", J::s("return")),
            TerminatorKind::Unreachable => J::obj().with("k", J::s("unreachable")),
            TerminatorKind::Drop { place, target, unwind, .. } => J::obj()
                .with("k", J::s("drop"))
                .with("p", self.place(*place))
                .with(
                    "ty",
                    J::s(place.ty(&self.body.local_decls, self.tcx).ty.to_string()),
                )
                .with("t", bb(*target))
                .with("unwind", self.unwind(unwind)),
            TerminatorKind::Call { func, args, destination, target, unwind, .. } => {
                let mut o = J::obj().with("k", J::s("call"));
                o.put("f", self.callee(func));
                o.put("args", J::Arr(args.iter().map(|a| self.op(&a.node)).collect()));
                o.put("dest", self.place(*destination));
                o.put("t", target.map(bb).into());
                o.put("unwind", self.unwind(unwind));
                o
            }
            TerminatorKind::TailCall { func, args, .. } => {
                let mut o = J::obj().with("k", J::s("tailcall"));
                o.put("f", self.callee(func));
                o.put("args", J::Arr(args.iter().map(|a| self.op(&a.node)).collect()));
                o
            }
            TerminatorKind::Assert { cond, expected, msg, target, unwind } => {
                let kind = format!("{:?}", msg);
                let kind = kind.split(|c| c == '(' || c == ' ' || c == '{').next().unwrap_or("").to_string();
                J::obj()
                    .with("k", J::s("assert"))
                    .with("cond", self.op(cond))
                    .with("expected", (*expected).into())
                    .with("msg", J::s(kind))
                    .with("t", bb(*target))
                    .with("unwind", self.unwind(unwind))
            }
            TerminatorKind::FalseEdge { real_target, .. } => {
                J::obj().with("k", J::s("goto")).with("t", bb(*real_target))
            }
            TerminatorKind::FalseUnwind { real_target, .. } => {
                J::obj().with("k", J::s("goto")).with("t", bb(*real_target))
            }
            _ => J::obj().with("k", J::s("other")),
        }
    }
}
