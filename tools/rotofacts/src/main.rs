//! rotofacts: rustc_private driver that exports type-resolved facts
//! (items, HIR-lite, MIR-lite) of the crate being compiled as JSON.
//!
//! Used as RUSTC_WORKSPACE_WRAPPER: argv[1] is the real rustc path (dropped).
//! Output directory: env ROTOFACTS_OUT. Only crates named in
//! ROTOFACTS_CRATES (comma separated; default "roto,roto_macros,canary")
//! are exported; every other crate is compiled normally.
#![feature(rustc_private)]
#![allow(clippy::all)]

extern crate rustc_abi;
extern crate rustc_ast;
extern crate rustc_driver;
extern crate rustc_hir;
extern crate rustc_infer;
extern crate rustc_interface;
extern crate rustc_middle;
extern crate rustc_span;
extern crate rustc_trait_selection;

mod hirlite;
mod items;
mod json;
mod mirlite;

use json::J;
use rustc_driver::{Callbacks, Compilation};
use rustc_interface::interface;
use rustc_middle::ty::TyCtxt;
use rustc_span::Span;
use std::io::Write;

pub struct Loc {
    pub file: String,
    pub line: usize,
    pub col: usize,
}

pub fn loc(tcx: TyCtxt<'_>, span: Span) -> Loc {
    // Resolve to the outermost call site so that lines always point into the
    // crate's own source rather than into a macro definition.
    let span = if span.from_expansion() { span.source_callsite() } else { span };
    let sm = tcx.sess.source_map();
    let l = sm.lookup_char_pos(span.lo());
    let file = match &l.file.name {
        rustc_span::FileName::Real(r) => match r.local_path() {
            Some(p) => p.to_string_lossy().to_string(),
            None => format!("{:?}", r),
        },
        other => format!("{:?}", other),
    };
    Loc { file, line: l.line, col: l.col.0 }
}

/// Names of the macros in the expansion backtrace of a span, innermost first.
pub fn macros(span: Span) -> Vec<String> {
    let mut v = Vec::new();
    if !span.from_expansion() {
        return v;
    }
    for e in span.macro_backtrace() {
        match e.kind {
            rustc_span::ExpnKind::Macro(_, name) => v.push(name.to_string()),
            rustc_span::ExpnKind::Desugaring(d) => v.push(format!("desugar:{:?}", d)),
            _ => {}
        }
        if v.len() >= 6 {
            break;
        }
    }
    v
}

struct Cb;

impl Callbacks for Cb {
    fn after_analysis<'tcx>(
        &mut self,
        _compiler: &interface::Compiler,
        tcx: TyCtxt<'tcx>,
    ) -> Compilation {
        let krate = tcx.crate_name(rustc_hir::def_id::LOCAL_CRATE).to_string();
        let wanted = std::env::var("ROTOFACTS_CRATES")
            .unwrap_or_else(|_| "roto,roto_macros,canary".to_string());
        if !wanted.split(',').any(|c| c == krate) {
            return Compilation::Continue;
        }
        let out = match std::env::var("ROTOFACTS_OUT") {
            Ok(o) => o,
            Err(_) => return Compilation::Continue,
        };
        // Skip build scripts / test harness variants: only lib-like crate types
        // and bins are fine; the file name carries the crate name.
        let _ = std::fs::create_dir_all(&out);

        let mut bodies_buf = String::new();
        let mut index: Vec<J> = Vec::new();
        let mut n_bodies = 0usize;
        let mut n_blocks = 0usize;
        for did in tcx.hir_body_owners() {
            let start = bodies_buf.len();
            let mut body = J::obj();
            let path = tcx.def_path_str(did.to_def_id());
            body.put("path", J::s(path.clone()));
            let l = loc(tcx, tcx.def_span(did));
            body.put("file", J::s(l.file.clone()));
            body.put("line", l.line.into());
            body.put("def_kind", J::s(format!("{:?}", tcx.def_kind(did))));
            body.put("hir", hirlite::body(tcx, did));
            match mirlite::body(tcx, did) {
                Some((m, nb)) => {
                    n_blocks += nb;
                    body.put("mir", m);
                }
                None => body.put("mir", J::Null),
            }
            body.write(&mut bodies_buf);
            bodies_buf.push('\n');
            let end = bodies_buf.len();
            index.push(J::Arr(vec![
                J::s(path),
                start.into(),
                (end - start).into(),
                J::s(l.file),
                l.line.into(),
            ]));
            n_bodies += 1;
        }
        let items = items::items(tcx);
        let mut meta = J::obj();
        meta.put("crate", J::s(krate.clone()));
        meta.put("bodies", n_bodies.into());
        meta.put("mir_blocks", n_blocks.into());
        meta.put("index", J::Arr(index));
        meta.put("stamp", J::s(std::env::var("ROTOFACTS_STAMP").unwrap_or_default()));
        let mut meta_s = String::new();
        meta.write(&mut meta_s);
        let mut items_s = String::new();
        items.write(&mut items_s);
        // one write per file per process
        for (name, data) in [
            (format!("{}/{}.bodies.jsonl", out, krate), &bodies_buf),
            (format!("{}/{}.items.json", out, krate), &items_s),
            (format!("{}/{}.meta.json", out, krate), &meta_s),
        ] {
            let tmp = format!("{}.tmp{}", name, std::process::id());
            let mut f = std::fs::File::create(&tmp).expect("create fact file");
            f.write_all(data.as_bytes()).expect("write fact file");
            drop(f);
            std::fs::rename(&tmp, &name).expect("rename fact file");
        }
        Compilation::Continue
    }
}

fn main() {
    let mut args: Vec<String> = std::env::args().collect();
    // wrapper mode: argv[1] is the path of the real rustc
    if args.len() > 1 && (args[1].ends_with("rustc") || args[1].contains("/rustc")) {
        args.remove(1);
    }
    rustc_driver::run_compiler(&args, &mut Cb);
}
