//! Item-level facts: ADTs (fields, repr, Send/Sync per field, layout),
//! impls (trait, self type, safety, predicates, assoc types), statics.
use crate::json::J;
use crate::loc;
use rustc_hir as hir;
use rustc_hir::def::DefKind;
use rustc_infer::infer::TyCtxtInferExt;
use rustc_middle::ty::{self, Ty, TyCtxt, TypingEnv, TypingMode};
use rustc_span::sym;
use rustc_trait_selection::infer::InferCtxtExt;

fn implements<'tcx>(
    tcx: TyCtxt<'tcx>,
    trait_did: rustc_hir::def_id::DefId,
    ty: Ty<'tcx>,
    param_env: ty::ParamEnv<'tcx>,
) -> bool {
    let infcx = tcx.infer_ctxt().build(TypingMode::non_body_analysis());
    infcx
        .type_implements_trait(trait_did, [ty], param_env)
        .must_apply_modulo_regions()
}

pub fn items<'tcx>(tcx: TyCtxt<'tcx>) -> J {
    let send = tcx.get_diagnostic_item(sym::Send);
    let sync = tcx.get_diagnostic_item(sym::Sync);
    let mut adts = Vec::new();
    let mut impls = Vec::new();
    let mut statics = Vec::new();
    let mut fns = Vec::new();
    for id in tcx.hir_free_items() {
        let item = tcx.hir_item(id);
        let did = item.owner_id.def_id;
        let l = loc(tcx, item.span);
        match &item.kind {
            hir::ItemKind::Struct(..) | hir::ItemKind::Enum(..) | hir::ItemKind::Union(..) => {
                let adt = tcx.adt_def(did.to_def_id());
                let mut o = J::obj();
                o.put("path", J::s(tcx.def_path_str(did.to_def_id())));
                o.put("file", J::s(l.file));
                o.put("line", l.line.into());
                o.put(
                    "kind",
                    J::s(if adt.is_enum() {
                        "enum"
                    } else if adt.is_union() {
                        "union"
                    } else {
                        "struct"
                    }),
                );
                let repr = adt.repr();
                let mut r = Vec::new();
                if repr.c() {
                    r.push(J::s("C"));
                }
                if repr.transparent() {
                    r.push(J::s("transparent"));
                }
                if let Some(i) = repr.int {
                    r.push(J::s(format!("{:?}", i)));
                }
                if repr.packed() {
                    r.push(J::s("packed"));
                }
                o.put("repr", J::Arr(r));
                o.put("vis", J::s(format!("{:?}", tcx.visibility(did.to_def_id()))));
                let generics = tcx.generics_of(did.to_def_id());
                o.put(
                    "generics",
                    J::Arr(generics.own_params.iter().map(|p| J::s(p.name.to_string())).collect()),
                );
                let param_env = tcx.param_env(did.to_def_id());
                let mut variants = Vec::new();
                for v in adt.variants() {
                    let mut vo = J::obj();
                    vo.put("name", J::s(v.name.to_string()));
                    vo.put("ctor", J::s(format!("{:?}", v.ctor_kind())));
                    let mut fields = Vec::new();
                    for f in v.fields.iter() {
                        let fty = tcx.type_of(f.did).instantiate_identity().skip_norm_wip();
                        let mut fo = J::obj();
                        fo.put("name", J::s(f.name.to_string()));
                        fo.put("ty", J::s(fty.to_string()));
                        fo.put("vis", J::s(format!("{:?}", f.vis)));
                        if let Some(s) = send {
                            fo.put("send", implements(tcx, s, fty, param_env).into());
                        }
                        if let Some(s) = sync {
                            fo.put("sync", implements(tcx, s, fty, param_env).into());
                        }
                        fields.push(fo);
                    }
                    vo.put("fields", J::Arr(fields));
                    variants.push(vo);
                }
                o.put("variants", J::Arr(variants));
                // whole-type Send/Sync and layout (for non-generic types)
                let self_ty = tcx.type_of(did.to_def_id()).instantiate_identity().skip_norm_wip();
                if let Some(s) = send {
                    o.put("send", implements(tcx, s, self_ty, param_env).into());
                }
                if let Some(s) = sync {
                    o.put("sync", implements(tcx, s, self_ty, param_env).into());
                }
                if generics.own_params.is_empty() {
                    let env = TypingEnv::post_analysis(tcx, did.to_def_id());
                    if let Ok(layout) = tcx.layout_of(env.as_query_input(self_ty)) {
                        o.put("size", J::Int(layout.size.bytes() as i128));
                        o.put("align", J::Int(layout.align.abi.bytes() as i128));
                    }
                }
                adts.push(o);
            }
            hir::ItemKind::Impl(imp) => {
                let mut o = J::obj();
                o.put("path", J::s(tcx.def_path_str(did.to_def_id())));
                o.put("file", J::s(l.file));
                o.put("line", l.line.into());
                let self_ty = tcx.type_of(did.to_def_id()).instantiate_identity().skip_norm_wip();
                o.put("self_ty", J::s(self_ty.to_string()));
                if let ty::Adt(adt, _) = self_ty.kind() {
                    o.put("self_adt", J::s(tcx.def_path_str(adt.did())));
                }
                if let Some(h) = imp.of_trait {
                    let tr = tcx.impl_trait_ref(did.to_def_id()).instantiate_identity().skip_norm_wip();
                    o.put("trait", J::s(tcx.def_path_str(tr.def_id)));
                    o.put("trait_ref", J::s(tr.to_string()));
                    o.put("unsafe", matches!(h.safety, hir::Safety::Unsafe).into());
                    o.put(
                        "negative",
                        matches!(h.polarity, hir::ImplPolarity::Negative(_)).into(),
                    );
                }
                o.put(
                    "derived",
                    tcx.is_automatically_derived(did.to_def_id()).into(),
                );
                o.put("mac", J::Arr(crate::macros(item.span).into_iter().map(J::s).collect()));
                let preds = tcx.predicates_of(did.to_def_id());
                let mut pv = Vec::new();
                for (p, _) in preds.predicates {
                    pv.push(J::s(p.to_string()));
                }
                o.put("preds", J::Arr(pv));
                let mut assoc = Vec::new();
                for iid in imp.items {
                    let idid = iid.owner_id.def_id.to_def_id();
                    let name = tcx.item_name(idid).to_string();
                    let dk = tcx.def_kind(idid);
                    let mut ao = J::obj();
                    ao.put("name", J::s(name));
                    ao.put("dk", J::s(format!("{:?}", dk)));
                    if matches!(dk, DefKind::AssocTy) {
                        let t = tcx.type_of(idid).instantiate_identity().skip_norm_wip();
                        ao.put("ty", J::s(t.to_string()));
                    }
                    if matches!(dk, DefKind::AssocFn) {
                        ao.put("vis", J::s(format!("{:?}", tcx.visibility(idid))));
                        let sig = tcx.fn_sig(idid).instantiate_identity().skip_norm_wip();
                        ao.put("sig", J::s(sig.to_string()));
                    }
                    assoc.push(ao);
                }
                o.put("items", J::Arr(assoc));
                impls.push(o);
            }
            hir::ItemKind::Static(m, ident, _, _) => {
                let t = tcx.type_of(did.to_def_id()).instantiate_identity().skip_norm_wip();
                statics.push(
                    J::obj()
                        .with("path", J::s(tcx.def_path_str(did.to_def_id())))
                        .with("name", J::s(ident.to_string()))
                        .with("mut", m.is_mut().into())
                        .with("ty", J::s(t.to_string()))
                        .with("file", J::s(l.file))
                        .with("line", l.line.into()),
                );
            }
            hir::ItemKind::Fn { .. } => {
                let sig = tcx.fn_sig(did.to_def_id()).instantiate_identity().skip_norm_wip();
                fns.push(
                    J::obj()
                        .with("path", J::s(tcx.def_path_str(did.to_def_id())))
                        .with("vis", J::s(format!("{:?}", tcx.visibility(did.to_def_id()))))
                        .with("sig", J::s(sig.to_string()))
                        .with("file", J::s(l.file))
                        .with("line", l.line.into()),
                );
            }
            hir::ItemKind::Trait { .. } => {
                let preds = tcx.explicit_super_predicates_of(did.to_def_id());
                let mut pv = Vec::new();
                for (p, _) in preds.skip_binder() {
                    pv.push(J::s(p.to_string()));
                }
                // bounds declared on the trait's associated types (`type Transformed: Clone + Send + Sync;`)
                let mut ab = Vec::new();
                for it in tcx.associated_items(did.to_def_id()).in_definition_order() {
                    if it.tag() != ty::AssocTag::Type || it.is_impl_trait_in_trait() {
                        continue;
                    }
                    let mut bs = Vec::new();
                    for (c, _) in tcx.explicit_item_bounds(it.def_id).skip_binder() {
                        bs.push(J::s(c.to_string()));
                    }
                    ab.push(J::obj().with("name", J::s(it.name().to_string())).with("bounds", J::Arr(bs)));
                }
                impls.push(
                    J::obj()
                        .with("path", J::s(tcx.def_path_str(did.to_def_id())))
                        .with("is_trait_decl", true.into())
                        .with("assoc_bounds", J::Arr(ab))
                        .with("supers", J::Arr(pv))
                        .with("file", J::s(l.file))
                        .with("line", l.line.into()),
                );
            }
            _ => {}
        }
    }
    // layouts of primitive and selected foreign types used at the boundary
    let mut layouts = Vec::new();
    let prims: Vec<(&str, Ty<'tcx>)> = vec![
        ("u8", tcx.types.u8),
        ("u16", tcx.types.u16),
        ("u32", tcx.types.u32),
        ("u64", tcx.types.u64),
        ("i8", tcx.types.i8),
        ("i16", tcx.types.i16),
        ("i32", tcx.types.i32),
        ("i64", tcx.types.i64),
        ("f32", tcx.types.f32),
        ("f64", tcx.types.f64),
        ("bool", tcx.types.bool),
        ("char", tcx.types.char),
        ("usize", tcx.types.usize),
        ("()", tcx.types.unit),
    ];
    let env = TypingEnv::fully_monomorphized();
    for (n, t) in prims {
        if let Ok(layout) = tcx.layout_of(env.as_query_input(t)) {
            layouts.push(
                J::obj()
                    .with("ty", J::s(n))
                    .with("size", J::Int(layout.size.bytes() as i128))
                    .with("align", J::Int(layout.align.abi.bytes() as i128)),
            );
        }
    }
    J::obj()
        .with("adts", J::Arr(adts))
        .with("impls", J::Arr(impls))
        .with("statics", J::Arr(statics))
        .with("fns", J::Arr(fns))
        .with("layouts", J::Arr(layouts))
}
