//! HIR-lite: typed, resolved expression tree of a body.
use crate::json::J;
use crate::{loc, macros};
use rustc_hir as hir;
use rustc_hir::def::Res;
use rustc_hir::def_id::LocalDefId;
use rustc_middle::ty::{TyCtxt, TypeckResults};

pub struct Cx<'tcx> {
    tcx: TyCtxt<'tcx>,
    tr: &'tcx TypeckResults<'tcx>,
}

pub fn body<'tcx>(tcx: TyCtxt<'tcx>, did: LocalDefId) -> J {
    let Some(body) = tcx.hir_maybe_body_owned_by(did) else {
        return J::Null;
    };
    let tr = tcx.typeck(did);
    let cx = Cx { tcx, tr };
    let mut o = J::obj();
    let mut params = Vec::new();
    for p in body.params {
        params.push(cx.pat(p.pat));
    }
    o.put("params", J::Arr(params));
    o.put("value", cx.expr(body.value));
    o
}

impl<'tcx> Cx<'tcx> {
    fn res(&self, res: Res) -> J {
        match res {
            Res::Local(id) => {
                let name = self.tcx.hir_name(id).to_string();
                J::obj()
                    .with("local", (id.local_id.as_u32()).into())
                    .with("name", J::s(name))
            }
            Res::Def(kind, did) => {
                let mut o = J::obj()
                    .with("def", J::s(self.tcx.def_path_str(did)))
                    .with("dk", J::s(format!("{:?}", kind)));
                // For constructors, also give the parent (variant / struct) path.
                if let hir::def::DefKind::Ctor(..) = kind {
                    let parent = self.tcx.parent(did);
                    o.put("ctor_of", J::s(self.tcx.def_path_str(parent)));
                }
                o
            }
            Res::SelfCtor(did) => J::obj().with("selfctor", J::s(self.tcx.def_path_str(did))),
            Res::SelfTyAlias { alias_to, .. } => {
                J::obj().with("selfty", J::s(self.tcx.def_path_str(alias_to)))
            }
            Res::SelfTyParam { .. } => J::obj().with("selfty", J::s("Self")),
            Res::PrimTy(p) => J::obj().with("prim", J::s(p.name_str())),
            other => J::obj().with("other", J::s(format!("{:?}", other))),
        }
    }

    fn qpath(&self, qp: &hir::QPath<'tcx>, id: hir::HirId) -> J {
        let res = self.tr.qpath_res(qp, id);
        let mut o = self.res(res);
        let text = match qp {
            hir::QPath::Resolved(_, p) => p
                .segments
                .iter()
                .map(|s| s.ident.to_string())
                .collect::<Vec<_>>()
                .join("::"),
            hir::QPath::TypeRelative(_, seg) => format!("<_>::{}", seg.ident),
        };
        o.put("text", J::s(text));
        o
    }

    fn base(&self, k: &'static str, e: &hir::Expr<'tcx>) -> J {
        let mut o = J::obj().with("k", J::s(k));
        let l = loc(self.tcx, e.span);
        o.put("line", l.line.into());
        let m = macros(e.span);
        if !m.is_empty() {
            o.put("mac", J::Arr(m.into_iter().map(J::s).collect()));
        }
        if let Some(t) = self.tr.expr_ty_opt(e) {
            o.put("ty", J::s(t.to_string()));
        }
        o
    }

    pub fn expr(&self, e: &hir::Expr<'tcx>) -> J {
        use hir::ExprKind as K;
        match &e.kind {
            K::DropTemps(inner) | K::Use(inner, _) | K::Type(inner, _) => self.expr(inner),
            K::ConstBlock(cb) => self
                .base("constblock", e)
                .with("def", J::s(self.tcx.def_path_str(cb.def_id.to_def_id()))),
            K::Array(xs) => self
                .base("array", e)
                .with("elems", J::Arr(xs.iter().map(|x| self.expr(x)).collect())),
            K::Call(f, args) => {
                let mut o = self.base("call", e);
                o.put("f", self.expr(f));
                o.put("args", J::Arr(args.iter().map(|x| self.expr(x)).collect()));
                o
            }
            K::MethodCall(seg, recv, args, _) => {
                let mut o = self.base("mcall", e);
                o.put("m", J::s(seg.ident.to_string()));
                if let Some(did) = self.tr.type_dependent_def_id(e.hir_id) {
                    o.put("def", J::s(self.tcx.def_path_str(did)));
                    let ga = self.tr.node_args(e.hir_id);
                    if !ga.is_empty() {
                        o.put(
                            "gargs",
                            J::Arr(ga.iter().map(|a| J::s(a.to_string())).collect()),
                        );
                    }
                }
                o.put("recv", self.expr(recv));
                o.put("args", J::Arr(args.iter().map(|x| self.expr(x)).collect()));
                o
            }
            K::Tup(xs) => self
                .base("tup", e)
                .with("elems", J::Arr(xs.iter().map(|x| self.expr(x)).collect())),
            K::Binary(op, a, b) => {
                let mut o = self.base("bin", e);
                o.put("op", J::s(op.node.as_str()));
                o.put("a", self.expr(a));
                o.put("b", self.expr(b));
                if let Some(did) = self.tr.type_dependent_def_id(e.hir_id) {
                    o.put("def", J::s(self.tcx.def_path_str(did)));
                }
                o
            }
            K::Unary(op, a) => {
                let mut o = self.base("un", e);
                o.put("op", J::s(op.as_str()));
                o.put("a", self.expr(a));
                if let Some(did) = self.tr.type_dependent_def_id(e.hir_id) {
                    o.put("def", J::s(self.tcx.def_path_str(did)));
                }
                o
            }
            K::Lit(lit) => {
                let mut o = self.base("lit", e);
                use rustc_ast::LitKind as L;
                match &lit.node {
                    L::Str(s, _) => {
                        o.put("lk", J::s("str"));
                        o.put("v", J::s(s.to_string()));
                    }
                    L::Char(c) => {
                        o.put("lk", J::s("char"));
                        o.put("v", J::s(c.to_string()));
                    }
                    L::Byte(b) => {
                        o.put("lk", J::s("byte"));
                        o.put("v", J::Int(*b as i128));
                    }
                    L::Int(i, _) => {
                        o.put("lk", J::s("int"));
                        o.put("v", J::Int(i.get() as i128));
                    }
                    L::Float(s, _) => {
                        o.put("lk", J::s("float"));
                        o.put("v", J::s(s.to_string()));
                    }
                    L::Bool(b) => {
                        o.put("lk", J::s("bool"));
                        o.put("v", J::Bool(*b));
                    }
                    L::ByteStr(b, _) | L::CStr(b, _) => {
                        o.put("lk", J::s("bytestr"));
                        o.put(
                            "v",
                            J::s(String::from_utf8_lossy(b.as_byte_str()).to_string()),
                        );
                    }
                    L::Err(_) => {}
                }
                o
            }
            K::Cast(a, _) => self.base("cast", e).with("e", self.expr(a)),
            K::Let(l) => self
                .base("let", e)
                .with("pat", self.pat(l.pat))
                .with("init", self.expr(l.init)),
            K::If(c, t, f) => {
                let mut o = self.base("if", e);
                o.put("cond", self.expr(c));
                o.put("then", self.expr(t));
                o.put("else", f.map(|f| self.expr(f)).into());
                o
            }
            K::Loop(b, _, src, _) => self
                .base("loop", e)
                .with("src", J::s(format!("{:?}", src)))
                .with("body", self.block(b)),
            K::Match(scrut, arms, src) => {
                let mut o = self.base("match", e);
                o.put("src", J::s(format!("{:?}", src)));
                o.put("e", self.expr(scrut));
                let mut v = Vec::new();
                for a in *arms {
                    let mut ao = J::obj();
                    ao.put("line", loc(self.tcx, a.span).line.into());
                    ao.put("pat", self.pat(a.pat));
                    ao.put("guard", a.guard.map(|g| self.expr(g)).into());
                    ao.put("body", self.expr(a.body));
                    v.push(ao);
                }
                o.put("arms", J::Arr(v));
                o
            }
            K::Closure(c) => {
                let mut o = self.base("closure", e);
                o.put("def", J::s(self.tcx.def_path_str(c.def_id.to_def_id())));
                // The closure body is typechecked with the parent's results.
                let b = self.tcx.hir_body(c.body);
                o.put(
                    "params",
                    J::Arr(b.params.iter().map(|p| self.pat(p.pat)).collect()),
                );
                o.put("body", self.expr(b.value));
                o
            }
            K::Block(b, _) => {
                let mut o = self.block(b);
                if let Some(t) = self.tr.expr_ty_opt(e) {
                    o.put("ty", J::s(t.to_string()));
                }
                o
            }
            K::Assign(a, b, _) => self
                .base("assign", e)
                .with("lhs", self.expr(a))
                .with("rhs", self.expr(b)),
            K::AssignOp(op, a, b) => self
                .base("assignop", e)
                .with("op", J::s(op.node.as_str()))
                .with("lhs", self.expr(a))
                .with("rhs", self.expr(b)),
            K::Field(a, ident) => self
                .base("field", e)
                .with("n", J::s(ident.to_string()))
                .with("e", self.expr(a)),
            K::Index(a, i, _) => {
                let mut o = self.base("index", e);
                if let Some(did) = self.tr.type_dependent_def_id(e.hir_id) {
                    o.put("def", J::s(self.tcx.def_path_str(did)));
                }
                o.put("e", self.expr(a));
                o.put("i", self.expr(i));
                o
            }
            K::Path(qp) => {
                let mut o = self.base("path", e);
                o.put("res", self.qpath(qp, e.hir_id));
                let ga = self.tr.node_args(e.hir_id);
                if !ga.is_empty() {
                    o.put(
                        "gargs",
                        J::Arr(ga.iter().map(|a| J::s(a.to_string())).collect()),
                    );
                }
                o
            }
            K::AddrOf(_, m, a) => self
                .base("addr", e)
                .with("mut", m.is_mut().into())
                .with("e", self.expr(a)),
            K::Break(_, v) => self
                .base("break", e)
                .with("e", v.map(|v| self.expr(v)).into()),
            K::Continue(_) => self.base("continue", e),
            K::Ret(v) => self.base("ret", e).with("e", v.map(|v| self.expr(v)).into()),
            K::Become(v) => self.base("become", e).with("e", self.expr(v)),
            K::InlineAsm(_) => self.base("asm", e),
            K::OffsetOf(_, _) => self.base("offsetof", e),
            K::Struct(qp, fields, tail) => {
                let mut o = self.base("struct", e);
                o.put("path", self.qpath(qp, e.hir_id));
                let mut v = Vec::new();
                for f in *fields {
                    v.push(J::Arr(vec![J::s(f.ident.to_string()), self.expr(f.expr)]));
                }
                o.put("fields", J::Arr(v));
                match tail {
                    hir::StructTailExpr::Base(b) => o.put("base", self.expr(b)),
                    hir::StructTailExpr::None => {}
                    _ => o.put("base", J::s("..")),
                }
                o
            }
            K::Repeat(a, _) => self.base("repeat", e).with("e", self.expr(a)),
            K::Yield(a, _) => self.base("yield", e).with("e", self.expr(a)),
            K::UnsafeBinderCast(_, a, _) => self.base("ubcast", e).with("e", self.expr(a)),
            K::Err(_) => self.base("err", e),
        }
    }

    fn block(&self, b: &hir::Block<'tcx>) -> J {
        let mut o = J::obj().with("k", J::s("block"));
        o.put("line", loc(self.tcx, b.span).line.into());
        let m = macros(b.span);
        if !m.is_empty() {
            o.put("mac", J::Arr(m.into_iter().map(J::s).collect()));
        }
        if !matches!(b.rules, hir::BlockCheckMode::DefaultBlock) {
            o.put("unsafe", true.into());
        }
        let mut v = Vec::new();
        for s in b.stmts {
            match &s.kind {
                hir::StmtKind::Let(l) => {
                    let mut lo = J::obj().with("k", J::s("letstmt"));
                    lo.put("line", loc(self.tcx, l.span).line.into());
                    lo.put("pat", self.pat(l.pat));
                    lo.put("init", l.init.map(|i| self.expr(i)).into());
                    lo.put("els", l.els.map(|b| self.block(b)).into());
                    v.push(lo);
                }
                hir::StmtKind::Item(_) => {}
                hir::StmtKind::Expr(x) => v.push(self.expr(x)),
                hir::StmtKind::Semi(x) => {
                    v.push(J::obj().with("k", J::s("semi")).with("e", self.expr(x)))
                }
            }
        }
        o.put("stmts", J::Arr(v));
        o.put("expr", b.expr.map(|x| self.expr(x)).into());
        o
    }

    fn patexpr(&self, pe: &hir::PatExpr<'tcx>) -> J {
        match &pe.kind {
            hir::PatExprKind::Lit { lit, negated } => {
                use rustc_ast::LitKind as L;
                let mut o = J::obj().with("k", J::s("plit"));
                match &lit.node {
                    L::Str(s, _) => o.put("v", J::s(s.to_string())),
                    L::Char(c) => o.put("v", J::s(c.to_string())),
                    L::Byte(b) => o.put("v", J::Int(*b as i128)),
                    L::Int(i, _) => {
                        let v = i.get() as i128;
                        o.put("v", J::Int(if *negated { -v } else { v }))
                    }
                    L::Bool(b) => o.put("v", J::Bool(*b)),
                    L::Float(s, _) => o.put("v", J::s(s.to_string())),
                    _ => {}
                }
                o
            }
            hir::PatExprKind::Path(qp) => J::obj()
                .with("k", J::s("ppath"))
                .with("res", self.qpath(qp, pe.hir_id)),
        }
    }

    pub fn pat(&self, p: &hir::Pat<'tcx>) -> J {
        use hir::PatKind as P;
        let mut o = match &p.kind {
            P::Missing | P::Never | P::Err(_) => J::obj().with("k", J::s("other")),
            P::Wild => J::obj().with("k", J::s("wild")),
            P::Binding(mode, id, ident, sub) => {
                let mut o = J::obj().with("k", J::s("bind"));
                o.put("name", J::s(ident.to_string()));
                o.put("local", id.local_id.as_u32().into());
                o.put("byref", matches!(mode.0, hir::ByRef::Yes(..)).into());
                if let Some(s) = sub {
                    o.put("sub", self.pat(s));
                }
                o
            }
            P::Struct(qp, fields, rest) => {
                let mut o = J::obj().with("k", J::s("pstruct"));
                o.put("res", self.qpath(qp, p.hir_id));
                let mut v = Vec::new();
                for f in *fields {
                    v.push(J::Arr(vec![J::s(f.ident.to_string()), self.pat(f.pat)]));
                }
                o.put("fields", J::Arr(v));
                o.put("rest", rest.is_some().into());
                o
            }
            P::TupleStruct(qp, pats, dd) => {
                let mut o = J::obj().with("k", J::s("pts"));
                o.put("res", self.qpath(qp, p.hir_id));
                o.put("pats", J::Arr(pats.iter().map(|x| self.pat(x)).collect()));
                o.put("dd", dd.as_opt_usize().map(|x| J::Int(x as i128)).into());
                o
            }
            P::Or(pats) => J::obj()
                .with("k", J::s("or"))
                .with("pats", J::Arr(pats.iter().map(|x| self.pat(x)).collect())),
            P::Tuple(pats, dd) => J::obj()
                .with("k", J::s("ptuple"))
                .with("pats", J::Arr(pats.iter().map(|x| self.pat(x)).collect()))
                .with("dd", dd.as_opt_usize().map(|x| J::Int(x as i128)).into()),
            P::Box(x) | P::Deref(x) | P::Ref(x, ..) => {
                J::obj().with("k", J::s("pref")).with("pat", self.pat(x))
            }
            P::Expr(pe) => self.patexpr(pe),
            P::Guard(x, g) => J::obj()
                .with("k", J::s("pguard"))
                .with("pat", self.pat(x))
                .with("guard", self.expr(g)),
            P::Range(a, b, end) => J::obj()
                .with("k", J::s("prange"))
                .with("lo", a.map(|a| self.patexpr(a)).into())
                .with("hi", b.map(|b| self.patexpr(b)).into())
                .with("incl", matches!(end, hir::RangeEnd::Included).into()),
            P::Slice(before, mid, after) => J::obj()
                .with("k", J::s("pslice"))
                .with("before", J::Arr(before.iter().map(|x| self.pat(x)).collect()))
                .with("mid", mid.map(|m| self.pat(m)).into())
                .with("after", J::Arr(after.iter().map(|x| self.pat(x)).collect())),
        };
        o.put("line", loc(self.tcx, p.span).line.into());
        if let Some(t) = self.tr.node_type_opt(p.hir_id) {
            o.put("ty", J::s(t.to_string()));
        }
        o
    }
}
