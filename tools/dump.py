#!/usr/bin/env python3
"""debug helper: dump.py <path-suffix> [mir|hir]  - prints the exported facts of one body of the current /repo (or VERIF_REPO)"""
import json, os, sys
sys.path.insert(0, os.path.dirname(os.path.dirname(os.path.abspath(__file__))))
from vf import export, facts
d = export.export_repo()
F = facts.Facts(d, "roto")
suf = sys.argv[1]
what = sys.argv[2] if len(sys.argv) > 2 else "mir"
for p in F.paths():
    if p.endswith(suf):
        b = F.body(p)
        print("==", p, b.file, b.line)
        if what == "mir":
            for i, blk in enumerate(b.blocks):
                print(i, json.dumps(blk)[:1500])
            print("locals", json.dumps(b.mir.get("locals"))[:3000])
        else:
            print(json.dumps(b.hir, indent=1)[:20000])
