#!/bin/sh
# usage: scratch.sh <patch.diff>   - (re)creates /tmp/roto-s as a copy of /repo with the patch applied (debugging aid; remove it when done)
rm -rf /tmp/roto-s; mkdir -p /tmp/roto-s
rsync -a --exclude target --exclude .git /repo/ /tmp/roto-s/
[ -n "$1" ] && patch -p1 -s --no-backup-if-mismatch -d /tmp/roto-s -i "$1"
echo "VERIF_REPO=/tmp/roto-s VERIF_CACHE=/verif/.cache/try VERIF_EVIDENCE_DIR=/tmp/roto-s.ev"
