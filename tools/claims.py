"""Which properties are claimed (with technique and level text) and which are not."""
CLAIMED = {
    "C15": {
        "technique": "MIR guard-liveness dataflow + origin tracing of the locked mutex + dominance of Arc::ptr_eq (lock-order/typestate analysis); address-ordered acquisition and caller-side distinctness proofs for locking helpers; must-pass-through of the element comparison on every path that answers true; delegation check of join; single-lock snapshot of to_vec (lock acquisitions counted through helpers, per-element locking reported); whole-list built-ins read one to_vec snapshot; the vtable's clone function does not depend on needs_drop",
        "level": "Decides the clause 'comparing two lists always terminates' and lock hygiene for every body that takes a Mutex: all CFG paths, all lock sites of the crate; does not decide results of operation histories (run-time values).",
        "note": "Partial: structural necessary conditions only (the rules are listed at the start of this note and in Appendix B of DESIGN.md).",
    },
    "C16": {
        "technique": "MIR escape/taint analysis of guard-derived raw pointers with guard-liveness dataflow and function summaries; who-may-call check on RawList; rustc trait-solver Send/Sync answers per field; single-lock snapshot of to_vec and of the whole-list built-ins built on it (shared C15.M12/M13)",
        "level": "Decides the second clause (no element address outlives the critical section it was obtained in) for every body in the crate, plus 'RawList only through its mutex'; plus one structural necessary condition of the first clause (M6/M7: each whole-list read - to_vec, join, from_chars - takes effect at a single lock acquisition); linearizability under schedules in general is not decided (run-time interleavings).",
        "note": "Partial: escape/typestate clauses M1-M5, single-acquisition clause M6/M7.",
    },
    "C04": {
        "technique": "must-pass-through on the MIR CFG of get_function (checked-result gates), sole-constructor scan of all aggregate sites, HIR table extraction of the per-constructor arms / arity patterns / leaf table, cross-table agreement with registrations and docs; must-pass-through strengthened to 'unreachable without the gate's success edge' (memoised or skipped gates); relay-value gates (an Option assigned its good variant only behind the gate); every exit of Value::resolve returns the type's own registry entry",
        "level": "Decides the logic of the signature gate (which is ordinary table-like Rust code): every path to a TypedFunc passes all four checks; every constructor arm, arity pattern and leaf row is enumerated and compared. Does not decide TypeRegistry contents for foreign TypeIds (trusted) nor ABI correctness (C05).",
        "note": "Close to whole-property for the gate's logic; G8 sealed-trait witnesses are in the thorough tier.",
    },
    "C01": {
        "technique": "HIR table extraction with symbolic guard evaluation; comparison of sibling tables (ast::BinOp -> lir -> cranelift) with a spec table; operand-origin tracing through let-bindings; forking partial evaluation (vf/sx) of FuncGen::instruction, Lowerer::binop and the lowering of unary operators on every value of the finite operator domain (condition codes, short-circuit constants, exact complements of comparisons); evaluated field comparison of generated equality functions (read with the field's IR type, compared through the type's own equality)",
        "level": "Decides only the operator/width/signedness selection tables and operand wiring (every row of every table, exhaustively); the behaviour of generated code for all programs and inputs is NOT decided (not statically reachable).",
        "note": "Partial: necessary conditions only (the rules are listed at the start of this note and in Appendix B of DESIGN.md) (quick tier; Appendix B of DESIGN.md lists them).",
    },
    "C20": {
        "technique": "sibling-table cross-check of the evaluator's per-instruction arms against the code generator's (HIR table extraction, operand-origin tracing), divergence check of every catch-all arm, assertion-before-access ordering; argument-position provenance in all 16 ir_function adapter instances; frame discipline of the evaluator's variable map (saved at push_frame, restored from pop_frame)",
        "level": "Decides mirror agreement arm by arm (all Instruction variants, all IntCmp/FloatCmp rows, all arithmetic rows), loud fallbacks and checked-memory ordering; equality of results over all scripts is not decided.",
        "note": "Partial: necessary conditions only (the rules are listed at the start of this note and in Appendix B of DESIGN.md). Memory::get's missing frame-id check is reported as a cross-reference only (no witness IR).",
    },
    "C11": {
        "technique": "ownership-structure analysis: ADT field tables (drop order = declaration order: JIT memory is the last owning field), forward value-flow of every constructed wrapper / module data value on MIR (through constructors and their callers) into Arc::new, backward data-flow of every ModuleData field to the builder field it comes from, who-may-free / who-may-relinquish over all MIR call sites (reviewed sites, ManuallyDrop decided by the owner's Drop), alloc/dealloc layout agreement by data-flow; interior-address check of the pointer accessors whose results are baked into code; no manual drop of a variable still registered in a frame (shared C03.F7)",
        "level": "Decides the 'not before' direction structurally: what a handle owns, drop order, the single place JIT memory is freed, and that every absolute pointer in generated code points into module-owned storage. 'Exactly once over all drop histories' is Rust's ownership guarantee (trusted), not re-proved.",
        "note": "Close to whole for keep-alive structure; H6 public-constructor witnesses are in the thorough tier.",
    },
    "C12": {
        "technique": "audit of every unsafe impl Send/Sync with rustc's trait solver answers per field + checked obligations (trait supertraits, blanket-impl where-clauses, &mut-self methods, who-calls on the JIT module); statics inventory; single-snapshot reads of whole-list built-ins (shared C15.M12/M13)",
        "level": "Decides the type-level sentence (safe Rust cannot share non-thread-safe state through the API) for every unsafe auto-trait impl in the crate; plus the single-snapshot shape of whole-list reads (S10/S11); results under all schedules are not decided.",
        "note": "Partial: clauses S1, S3, S5-S9 (type level, statics, who-calls), S10/S11 (single snapshot).",
    },
    "C06": {
        "technique": "interprocedural byte/char unit taint on MIR with parameter summaries; constant-offset inventory against a reviewed table; call-graph reachability of todo!()/unimplemented!() from the compile entry points; HIR arm checks (occurs check before binding, type-argument traversal, character_range at every ariadne call); same-span agreement of file name, converted span and text for every report label; explicit-panic inventory against a reviewed table; progress measure of the import fixpoint (count compared with the count at the start of the same round); sibling agreement of type checker and MIR lowering on desugared operators, both evaluated per operator; per-path visit count of each operand in the evaluated operator checker (no exponential re-checking); directory discovery descends only on DirEntry::file_type (no link-following test); interprocedural typestate of the LIR builder's block under construction (nothing emitted behind a terminator before the next block is opened; per-method summaries to a fixpoint); bound on the number of enum variants (shared C02.L11)",
        "level": "Decides necessary conditions (U1-U18), most of which located a real crash or hang on this tree; panic-freedom and termination of the whole front end on arbitrary text is NOT decided (hundreds of invariant-dependent unwrap/ice! sites).",
        "note": "Partial: necessary conditions only (the rules are listed at the start of this note and in Appendix B of DESIGN.md).",
    },
    "C09": {
        "technique": "symbolic evaluation of the precedence/associativity tables into the full 13x13 relation and comparison with the documented grammar; round-trip cross-checks of sibling spelling tables (lexer bytes, Token Display, keywords, Token->BinOp, suffix names); dominance order of the token recognisers; byte/char unit taint in the lexer; finite-domain evaluation (vf/symex.py) of the escape state machines of the string/char scanners over all (state, character class) pairs; literal-only brace collapse in f-strings; must-pass-through of an XID_Continue scan on every path to the identifier token cut; cursor monotonicity of the lexer (Lexer::input only computed from the current input); forward data-flow: no numeric cast between digit conversion and the Literal aggregate",
        "level": "Decides the grouping relation for every ordered pair of binary operators and the agreement of all spelling tables; the value denoted by each literal spelling (escapes, number parsing) is NOT decided.",
        "note": "Partial: necessary conditions only (the rules are listed at the start of this note and in Appendix B of DESIGN.md).",
    },
    "C18": {
        "technique": "must-pass-through on MIR (check_name / declare_runtime_* gates), dominance order of the registration passes, loop-accumulator feedback by origin tracing, panic-site inventory over call-graph-reachable registration code against a reviewed (kind, producer) table; sibling agreement of the recursive passes (scope handed to the recursion), lookup-decides-insertion checks for imports and context types (mir.decided_by), whole-name span comparison in name validation; all-or-nothing restore of the registration state (fields of Rt overwritten by public Runtime methods, closure captures included); push/restore pairing of the prefix stack of the library! macro's use-tree walk (shared C13.R14)",
        "level": "Decides the structural clauses I1-I16 (validation at every constructor, pass order, duplicate -> error, never a panic on the registration path, path walking); that every item is reachable under every library is not decided.",
        "note": "Partial: necessary conditions only (the rules are listed at the start of this note and in Appendix B of DESIGN.md).",
    },
    "C17": {
        "technique": "pairing of every library! registration with its resolved Rust body (fn item types through const blocks) and name/callee agreement; primitive-reachability and element-type agreement for the string views; cross-width uniformity of macro expansions",
        "level": "Decides that each documented name is bound to the std/inetnum operation of that name (93 registrations) and that each string view counts in its own unit; the values those operations return are trusted, not decided.",
        "note": "Partial: necessary conditions only (the rules are listed at the start of this note and in Appendix B of DESIGN.md).",
    },
    "C10": {
        "technique": "guard-before-trap check on every trapping cranelift builder call in the code generator; panic-site inventory over the call-graph closure of all registered built-in bodies, discharged by a reviewed (function, kind, producer) table; capacity-from-fresh-length rule of list concatenation (shared C16.M2); index-in-range decisions through length-equality gates",
        "level": "Decides two necessary conditions (K1 trapping instructions guarded, K2 no unreviewed panic across the FFI boundary in built-ins); absence of traps for all operand values in generated code in general is not decided. Five genuine defects are listed as known findings.",
        "note": "Partial: clauses K1-K5.",
    },
    "C07": {
        "technique": "per-arm HIR checks of the type checker's expression and operator tables (expected-type use, documented fixed types, operand contexts), MIR def-use error discipline over every TypeResult-returning call in typechecker::*, call-graph liveness of every diagnostic constructor, guard-before-use checks for the rule-specific tests; crate-wide search: resolved names are never compared by their bare identifier; sibling table of item contexts (constants and tests carry no function return type), by literal, helper or evaluation; value-flow of the right operand's divergence in the short-circuit operator group (used for its error only)",
        "level": "Decides necessary conditions E1-E14 over all 20 expression arms, 7 operator groups, ~320 result-returning call sites and 27 diagnostics; soundness of inference for all programs is not decided.",
        "note": "Partial: necessary conditions only (the rules are listed at the start of this note and in Appendix B of DESIGN.md).",
    },
    "C08": {
        "technique": "ordered-call-event dominance on the MIR of every lowering method with argument-origin tracing (which sub-expression a visit call visits), iterator-chain inspection for reverse traversal, Value::BinOp operand wiring, truncation arithmetic in dead-code elimination; branch selection of generated Switch code by equality with the branch index (shared C01.T9); evaluated compound assignment (target read before the right-hand side is lowered); must-pass-through of the lowering of every always-evaluated operand, with excuses only behind an inspection of that operand",
        "level": "Decides the visit order of the MIR lowerer (which fixes evaluation order) for all constructs named in the property; the emitted call sequence of every program is not decided.",
        "note": "Partial: necessary conditions only (the rules are listed at the start of this note and in Appendix B of DESIGN.md).",
    },
    "C03": {
        "technique": "frame-depth dataflow on the MIR of every lowering method (push/pop of stack_slots told apart by the Vec's element type), drain check of every popped frame, 'visit after new_block must own a frame' (typestate of conditionally/repeatedly executed regions), who-may-call for emit_return, dominance chains in assign and RotoFunc::invoke; may-dataflow of 'limbo tokens' (values outside the frames: unregistered temporaries, unregistered call arguments, popped frames) up to every descent into a sub-expression, with helper and per-element-closure summaries; single-exit check of the component loops of generated clone/drop/eq bodies; kind-before-size dominance in lower_type (registered types not elided); drop-on-every-return-path of by-value list built-ins (shared C15.M8); examinee-stored-before-dispatch on every path of the match lowering; helper-carried conditional visits",
        "level": "Decides the MIR lowerer's frame bookkeeping structurally on all CFG paths of all lowering methods - the mechanism that makes generated drops balance; the clone/drop balance of a particular script's generated code is not decided.",
        "note": "Partial: necessary conditions only (the rules are listed at the start of this note and in Appendix B of DESIGN.md).",
    },
    "C14": {
        "technique": "HIR arm checks for edge/node recording, must-pass-through gates and dominance in find_compilation_order, iterator-chain direction of the order through both lowerings, dominance chain define < finalize < initialise < insert in the code generator; Tarjan stack-membership invariant (stack itself or a flag cleared for every popped vertex); constant reads load on the reading path; no pass shrinks the item list between lowering and code generation (search rule with canary)",
        "level": "Decides that dependency edges are recorded at every resolution site, that the order is gated by the cycle/context checks and honoured by both lowerings, and that each constant is initialised once after finalisation; Tarjan's correctness and graph completeness for all programs are not decided.",
        "note": "Partial: necessary conditions only (the rules are listed at the start of this note and in Appendix B of DESIGN.md).",
    },
    "C19": {
        "technique": "HIR table extraction of the exit-code and verdict tables, MIR def-use error discipline over every fallible step of cli_inner, counting/aggregation shape of run_tests, cross-site agreement of the test-name prefix literal (incl. format_args pieces) and its lexical unspellability; all-definitions check of the symbol-table key in get_function (package prefix on every path); no test block dropped from the compilation order (shared C14.D6); leftover-input verdict of run_parser decided on the lexer, not on the parser's lookahead; control-dependence of module-file reads on file-type tests in the directory walk (name decides, not is_file)",
        "level": "Decides the small table-like clauses X1-X8 exhaustively (all arms, all call sites); what a particular script's tests do is not decided.",
        "note": "Partial: necessary conditions only (the rules are listed at the start of this note and in Appendix B of DESIGN.md).",
    },
    "C13": {
        "technique": "dominance/ordering of the lookups in resolve_name on MIR (declarations < recurse test < imports < parent, hit returns early), HIR checks of the path walker's loop-carried state, ADT/derive table of the name key, must-pass-through in imports(), cross-site agreement of discovery and export literals; path rule 'flag false after every further segment fetch' (segments after super); index-provenance rule for the module tree (child index = position of the child's own push, through helper returns); error discipline of module discovery (a failed source read has no successful exit); push/restore pairing of shared prefix stacks on every path of nested-list walks (search rule with canary); iterator-chain scope walks evaluated as loops; accumulator feedback of the registered use-path walk (shared C18.I1)",
        "level": "Decides the lookup order and path-walking rules stated by the property as structural facts of the two functions that implement them, plus key identity and literal agreement; what each reference resolves to in a given tree is not decided.",
        "note": "Partial: necessary conditions only (the rules are listed at the start of this note and in Appendix B of DESIGN.md).",
    },
    "C02": {
        "technique": "sibling agreement of all LayoutBuilder walks (context classified from resolved HIR patterns, seeding and traversal order read from MIR), direction checks of the clone plumbing by argument-origin tracing, ADT shape / derive table for the shared and immutable types; partial evaluation of the LIR lowering of constant / context reads (clone from the value's own address on the reading path, no aliasing, no remembered loads); default-branch decision of the match lowering on distinct variants (shared C05.A12); tag-width bound: the definition of a declared enum refuses more variants than the one-byte tag distinguishes (constant and edge of the guarding comparison evaluated); examinee-copied-before-dispatch of the match lowering (shared C03.F17)",
        "level": "Decides offset-table agreement between the independent layout walks and the aliasing structure of lists vs values; value semantics and exact addressing of generated code for all programs are not decided.",
        "note": "Partial: necessary conditions only (the rules are listed at the start of this note and in Appendix B of DESIGN.md).",
    },
    "C05": {
        "technique": "cross-table agreement with rustc as oracle: ADT repr/variant-order facts, rustc layout_of answers exported per Rust type vs the crate's own Primitive::layout table, associated-type table (AsParam/Transformed) vs the pool's reference-type table, statement-order checks of hidden-parameter assembly, fn-pointer type strings of the ABI adapters; per-IrType-variant forward dataflow of the AbiParam extension (uext/sext) over every parameter pushed onto a signature declared with Linkage::Import, through the helpers that build it; generic-argument audit of Layout::new / size_of / extern_clone|drop|eq instances in the typed list API (boundary representation); default-branch decision of the match lowering on distinct variants (shared C02.L10); dominance of every memcpy in the generated clone bodies by the recursive needs_clone predicate (or the leaf arm)",
        "level": "Decides agreement of every table both sides of the boundary derive layout, tags and passing convention from (all mirror enums, all 16 primitive rows, all 28 Value impls, all producers/consumers of the hidden parameters); equality of arbitrary values across the ABI of generated code is not decided.",
        "note": "Partial: necessary conditions only (the rules are listed at the start of this note and in Appendix B of DESIGN.md); context field offsets (proc-macro template) not decided.",
    },
}
NOT_APPLICABLE = {}
assert all(("C%02d" % i) in CLAIMED for i in range(1, 21))
