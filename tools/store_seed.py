#!/usr/bin/env python3
"""store_seed.py <prop> <name> <worktree> <caught_by> <initially: caught|missed> [note]"""
import json, os, shutil, subprocess, sys
prop, name, wt, caught, initially = sys.argv[1:6]
note = sys.argv[6] if len(sys.argv) > 6 else ""
dst = "/verif/seeded/%s-%s" % (prop, name)
os.makedirs(dst, exist_ok=True)
for f in ("patch.diff", "verif_demo.rs"):
    shutil.copy(os.path.join(wt, "OUT", f), os.path.join(dst, f))
meta = {}
try:
    meta = json.load(open(os.path.join(wt, "OUT", "meta.json")))
except Exception as e:
    meta = {"note": "agent meta.json unreadable: %s" % e}
log = ""
import glob
for lf in sorted(glob.glob("/tmp/confirm*.log")):
    if os.path.exists(lf):
        txt = open(lf).read()
        key = "== " + os.path.basename(wt).replace("seed-", "")
        if key in txt:
            log = txt.split(key, 1)[1].split("\n== ", 1)[0].strip()
base = subprocess.check_output(["git", "-C", wt, "rev-parse", "--short", "HEAD"], text=True).strip()
out = {
    "property": prop,
    "breaks": meta.get("summary"),
    "needs_to_manifest": meta.get("needs"),
    "author": "independent sub-agent given only the property text and a scratch worktree",
    "base_commit_of_patch": base,
    "agent_results": meta.get("results"),
    "confirmed_by_me": {"command": "tools/confirm_seed.sh <worktree> (suite with patch; demo with patch; demo without patch)", "output": log},
    "checks": {"caught_by": caught.split(","), "first_run": initially, "note": note,
               "how_to_rerun": "tools/try_patch.sh /verif/seeded/%s-%s/patch.diff %s" % (prop, name, prop)},
}
json.dump(out, open(os.path.join(dst, "meta.json"), "w"), indent=1)
print("stored", dst)
